package main

// R1 — AMR-PROTOCOL: conformance of common.AsyncMapReduce to the ack-and-join
// protocol (DESIGN §3 R1, obligations A1..A10). Decides C20.

import (
	"fmt"
	"go/constant"
	"go/token"
	"go/types"

	"golang.org/x/tools/go/ssa"
)

func init() {
	register("C20",
		"Structural conformance of common.AsyncMapReduce to the ack-and-join protocol: obligations A1..A10 over the SSA form of the function and its goroutine literals (map called once per item with an iteration-private argument; one acknowledgement per item; single reducer goroutine; Done only after the effect; Add(len) before spawning; Wait dominates return; done-handshake before channels close; results read after join; nothing else touches the channels). Together these imply map-once, serial reduce, join before return, every worker error handed to the error-list extension and no leaked goroutine (hand argument in DESIGN §3 R1). NOT implied: that every item is either reduced or visible in the returned error list — the extension (gqlerrors.ExtendErrorList → FormatError) adds nothing for a non-nil error that is an empty or typed-nil ErrorList, so such an item is neither reduced nor reported and a positional accumulator slot stays unfilled (fourth audit, AMR-C1). It is a shape check of the source, not an observation of executions.",
		ruleAMR)
}

type amr struct {
	r   *Run
	fn  *ssa.Function
	all []*ssa.Function // fn and its literals

	payload, accP, mapP, redP *ssa.Parameter
	rule                      string

	// pre: blocks of the helper that run before any goroutine is started (not reachable from a
	// spawn site). emptyRets: returns in such blocks that are taken only for an empty payload.
	pre       map[*ssa.BasicBlock]bool
	emptyRets map[*ssa.Return]bool

	// adopted: module functions the helper calls or spawns statically while handing them one of
	// its protocol objects (a channel, mapFunc/reduceFunc, the wait group): an extracted worker
	// or reducer. Their bodies are checked as part of the family (a.all).
	adopted map[*ssa.Function]bool

	note string // appended to the reasons of violations (context of a re-used sub-check)
}

// setPre computes pre and emptyRets from the spawn sites (instructions of the helper's body).
func (a *amr) setPre(spawns ...ssa.Instruction) {
	a.pre = map[*ssa.BasicBlock]bool{}
	a.emptyRets = map[*ssa.Return]bool{}
	after := map[*ssa.BasicBlock]bool{}
	for _, sp := range spawns {
		if sp == nil || sp.Parent() != a.fn {
			return
		}
		after[sp.Block()] = true
		for b := range blockReach(sp.Block()) {
			after[b] = true
		}
	}
	for _, b := range a.fn.Blocks {
		if !after[b] && b != a.fn.Recover {
			a.pre[b] = true
		}
	}
	for _, ret := range returnsOf(a.fn) {
		if a.pre[ret.Block()] && a.underEmptyPayload(ret.Block()) {
			a.emptyRets[ret] = true
		}
	}
}

// root resolves a value to the set of values it can originate from, looking through
// captured cells, local cells with stores, closure parameters (through the unique spawn/call
// site) and identity conversions. Roots are Parameters of the top function, MakeChan, Alloc
// (for addressable cells such as the WaitGroup), Const, and any other instruction.
func (a *amr) roots(v ssa.Value) []ssa.Value {
	seen := map[ssa.Value]bool{}
	var out []ssa.Value
	var f func(v ssa.Value)
	f = func(v ssa.Value) {
		v = unwrap(v)
		if v == nil || seen[v] {
			return
		}
		seen[v] = true
		switch x := v.(type) {
		case *ssa.UnOp:
			if x.Op == token.MUL {
				cell := a.cell(x.X)
				if al, ok := cell.(*ssa.Alloc); ok {
					sts := storesTo(al)
					if len(sts) > 0 {
						for _, st := range sts {
							f(st.Val)
						}
						return
					}
				}
			}
			out = append(out, v)
		case *ssa.Phi:
			for _, e := range x.Edges {
				f(e)
			}
		case *ssa.Parameter:
			if x.Parent() == a.fn {
				out = append(out, v)
				return
			}
			// parameter of a literal: follow the arguments at its entry sites
			idx := paramIndex(x)
			n := 0
			for _, site := range a.entrySites(x.Parent()) {
				args := site.Common().Args
				if idx < len(args) {
					n++
					f(args[idx])
				}
			}
			if n == 0 {
				out = append(out, v)
			}
		default:
			out = append(out, v)
		}
	}
	f(v)
	return out
}

func paramIndex(p *ssa.Parameter) int {
	for i, q := range p.Parent().Params {
		if q == p {
			return i
		}
	}
	return -1
}

// cell resolves an address to the Alloc (in the top function or a literal) it denotes,
// looking through free-variable bindings.
func (a *amr) cell(addr ssa.Value) ssa.Value {
	for i := 0; i < 10; i++ {
		switch x := addr.(type) {
		case *ssa.FreeVar:
			fn := x.Parent()
			idx := -1
			for i, fv := range fn.FreeVars {
				if fv == x {
					idx = i
				}
			}
			var bound ssa.Value
			if par := fn.Parent(); par != nil {
				for _, ins := range allInstrs(par) {
					if mc, ok := ins.(*ssa.MakeClosure); ok && mc.Fn == ssa.Value(fn) && idx < len(mc.Bindings) {
						bound = mc.Bindings[idx]
					}
				}
			}
			if bound == nil {
				return addr
			}
			addr = bound
		default:
			return addr
		}
	}
	return addr
}

// adopt extends the family by the module functions that receive a protocol object from it.
func (a *amr) adopt() {
	a.adopted = map[*ssa.Function]bool{}
	for round := 0; round < 3; round++ {
		grew := false
		for _, f := range append([]*ssa.Function{}, a.all...) {
			for _, ins := range allInstrs(f) {
				ci, ok := ins.(ssa.CallInstruction)
				if !ok {
					continue
				}
				sc := ci.Common().StaticCallee()
				if sc == nil || !inModule(sc) {
					continue
				}
				callee := a.r.P.declared(sc)
				if callee == nil || callee.Blocks == nil || callee.Parent() != nil || callee == a.fn || a.adopted[callee] {
					continue
				}
				hands := false
				for _, arg := range ci.Common().Args {
					switch t := arg.Type().Underlying().(type) {
					case *types.Chan:
						hands = true
					case *types.Signature:
						if a.isParam(arg, a.mapP) || a.isParam(arg, a.redP) {
							hands = true
						}
					case *types.Pointer:
						if namedOf(t.Elem()) == "sync.WaitGroup" {
							hands = true
						}
					}
				}
				if hands {
					a.adopted[callee] = true
					a.all = append(a.all, withClosures(callee)...)
					grew = true
				}
			}
		}
		if !grew {
			break
		}
	}
}

// deferredOnly: lit is a literal of the helper that is entered only through `defer` statements
// of the helper itself (or of literals that are themselves deferred-only): its body runs on the
// caller's goroutine when the helper returns.
func (a *amr) deferredOnly(lit *ssa.Function) bool {
	for depth := 0; depth < 4; depth++ {
		if lit == nil || lit == a.fn {
			return lit == a.fn && depth > 0
		}
		ent := a.entrySites(lit)
		if len(ent) == 0 {
			return false
		}
		var par *ssa.Function
		for _, e := range ent {
			if _, isDefer := e.(*ssa.Defer); !isDefer {
				return false
			}
			if par != nil && par != e.Parent() {
				return false
			}
			par = e.Parent()
		}
		lit = par
	}
	return false
}

// wgOf resolves the receiver of a WaitGroup method to the wait group it denotes: the cell of
// a `var wg sync.WaitGroup` (possibly captured), or the allocation a pointer variable
// `wg := &sync.WaitGroup{}` / `new(sync.WaitGroup)` holds (the variable has one value).
func (a *amr) wgOf(v ssa.Value) ssa.Value {
	c := a.cell(v)
	if _, ok := c.(*ssa.Alloc); ok {
		return c
	}
	rs := a.roots(c)
	if len(rs) == 1 {
		if al, ok := rs[0].(*ssa.Alloc); ok {
			return al
		}
	}
	return c
}

// entrySites returns the go/call/defer instructions (anywhere in the function family)
// whose callee value is the literal lit.
func (a *amr) entrySites(lit *ssa.Function) []ssa.CallInstruction {
	var out []ssa.CallInstruction
	for _, f := range a.all {
		for _, ins := range allInstrs(f) {
			ci, ok := ins.(ssa.CallInstruction)
			if !ok {
				continue
			}
			for _, rv := range a.calleeLits(ci.Common().Value) {
				if rv == lit || (a.adopted[lit] && a.r.P.declared(rv) == lit) {
					out = append(out, ci)
				}
			}
		}
	}
	return out
}

// calleeLits resolves a callee value to function literals of this family.
func (a *amr) calleeLits(v ssa.Value) []*ssa.Function {
	var out []*ssa.Function
	for _, r := range a.rootsNoParamFollow(v) {
		switch x := r.(type) {
		case *ssa.MakeClosure:
			if f, ok := x.Fn.(*ssa.Function); ok {
				out = append(out, f)
			}
		case *ssa.Function:
			out = append(out, x)
		}
	}
	return out
}

// rootsNoParamFollow is roots() without following literal parameters (avoids recursion
// through entrySites).
func (a *amr) rootsNoParamFollow(v ssa.Value) []ssa.Value {
	seen := map[ssa.Value]bool{}
	var out []ssa.Value
	var f func(v ssa.Value)
	f = func(v ssa.Value) {
		v = unwrap(v)
		if v == nil || seen[v] {
			return
		}
		seen[v] = true
		switch x := v.(type) {
		case *ssa.UnOp:
			if x.Op == token.MUL {
				if al, ok := a.cell(x.X).(*ssa.Alloc); ok {
					sts := storesTo(al)
					if len(sts) > 0 {
						for _, st := range sts {
							f(st.Val)
						}
						return
					}
				}
			}
			out = append(out, v)
		case *ssa.Phi:
			for _, e := range x.Edges {
				f(e)
			}
		default:
			out = append(out, v)
		}
	}
	f(v)
	return out
}

func (a *amr) isParam(v ssa.Value, p *ssa.Parameter) bool {
	rs := a.roots(v)
	return len(rs) == 1 && rs[0] == ssa.Value(p)
}

func (a *amr) site(ins ssa.Instruction) string { return a.r.P.pos(ins.Pos()) }

func (a *amr) bad(ob, construct string, at ssa.Instruction, why string) {
	site := "-"
	fn := fnName(a.fn)
	if at != nil {
		site = a.site(at)
		if at.Parent() != nil {
			fn = fnName(at.Parent())
		}
		if site == "-" {
			site = a.r.P.pos(at.Parent().Pos())
		}
	}
	a.r.Bad(a.rule+"."+ob, fn, construct, site, why+a.note)
}
func (a *amr) ok(ob, construct string, at ssa.Instruction, why string) {
	site := "-"
	fn := fnName(a.fn)
	if at != nil {
		site = a.site(at)
		if at.Parent() != nil {
			fn = fnName(at.Parent())
		}
	}
	a.r.OK(a.rule+"."+ob, fn, construct, site, why)
}

func ruleAMR(r *Run) {
	const rule = "R1"
	fn := r.P.Fn("common.AsyncMapReduce")
	if fn == nil {
		// fall back to the signature: ([]T, A, func(T)(P,error), func(A,P)A) (A, gqlerrors.ErrorList)
		for _, f := range r.P.Funcs {
			if f.Parent() == nil && f.Pkg != nil && shortPkg(f.Pkg.Pkg.Path()) == "common" && len(f.Params) == 4 && f.Signature.Results().Len() == 2 &&
				namedOf(f.Signature.Results().At(1).Type()) == modPath+"/gqlerrors.ErrorList" {
				fn = f
			}
		}
	}
	if fn == nil {
		r.Bad(rule+".anchor", "common.AsyncMapReduce", "anchor", "-", "the map/reduce helper was not found by name or by signature")
		return
	}
	a := &amr{r: r, fn: fn, all: withClosures(fn), rule: rule}
	r.Assume("R1 shows that every error a worker receives from mapFunc reaches the error-list extension before the join; it does not show that the extension records it: gqlerrors.FormatError yields no entry for a non-nil error that is an empty (or typed-nil) ErrorList, in which case the item is neither reduced nor reported (callers that index the accumulator by position then find a nil slot)")
	if len(fn.Params) != 4 {
		a.bad("anchor", "signature", nil, "helper no longer has the four parameters (payload, acc, mapFunc, reduceFunc)")
		return
	}
	a.payload, a.accP, a.mapP, a.redP = fn.Params[0], fn.Params[1], fn.Params[2], fn.Params[3]
	a.adopt()
	for _, f := range a.all {
		r.FuncsSeen[fnName(f)] = true
	}

	// ---- A11: the protocol is all there is -------------------------------------------------
	// The helper and its literals may call mapFunc, reduceFunc and the error-list join. A call
	// to any other module function that can block or synchronise (channel operation, select,
	// mutex, wait group, sleep — directly or further down) is a piece of protocol hidden from
	// the obligations below: a semaphore taken around mapFunc deadlocks nested fan-outs.
	nA11 := 0
	for _, f := range a.all {
		for _, ins := range allInstrs(f) {
			ci, ok := ins.(ssa.CallInstruction)
			if !ok {
				continue
			}
			sc := ci.Common().StaticCallee()
			// a blocking or synchronising call made directly in the helper or in one of its
			// literals (second table audit: a package-level mutex held around mapFunc went through
			// a version that only looked into module functions), and calls whose target is not
			// known here: a hook stored in a variable or field can do the same
			cn := calleeName(ci.Common())
			switch cn {
			case "(*sync.Mutex).Lock", "(*sync.RWMutex).Lock", "(*sync.RWMutex).RLock", "(*sync.Cond).Wait", "time.Sleep", "(*sync.Once).Do", "(*sync.Mutex).TryLock":
				nA11++
				a.bad("A11", "blocking-call:"+cn, ci, "the fan-out helper calls "+cn+" itself: synchronisation beyond the channel and wait-group protocol is outside the checked obligations (a lock or slot held while the map function runs makes nested fan-outs wait for each other forever)")
				continue
			}
			if sc == nil && !ci.Common().IsInvoke() {
				if _, isB := ci.Common().Value.(*ssa.Builtin); !isB && !a.isParam(ci.Common().Value, a.mapP) && !a.isParam(ci.Common().Value, a.redP) {
					if _, isClosure := ci.Common().Value.(*ssa.MakeClosure); !isClosure {
						nA11++
						a.bad("A11", "unknown-callee", ci, "the fan-out helper calls a function value that is neither mapFunc nor reduceFunc (a hook held in a variable or field): what it does — block, synchronise, call back into the helper — is outside the checked protocol")
						continue
					}
				}
			}
			if sc != nil && !inModule(sc) && sc.Signature.Recv() != nil && cn != "(*sync.WaitGroup).Wait" {
				// a method of a library type that takes a lock, a slot or waits (x/sync semaphore, errgroup …)
				switch sc.Name() {
				case "Lock", "RLock", "Wait", "Acquire":
					nA11++
					a.bad("A11", "blocking-call:"+cn, ci, "the fan-out helper calls "+cn+" itself: synchronisation beyond the channel and wait-group protocol is outside the checked obligations (a lock or slot held while the map function runs makes nested fan-outs wait for each other forever)")
					continue
				}
			}
			if ci.Common().IsInvoke() {
				switch ci.Common().Method.Name() {
				case "Lock", "RLock", "Wait", "Acquire":
					nA11++
					a.bad("A11", "blocking-call:"+cn, ci, "the fan-out helper calls "+cn+" through an interface: synchronisation beyond the channel and wait-group protocol is outside the checked obligations")
					continue
				}
			}
			if sc == nil || !inModule(sc) {
				continue
			}
			callee := r.P.declared(sc)
			if callee == nil || callee.Blocks == nil || topFn(callee) == fn {
				continue
			}
			if a.adopted[callee] {
				continue // its body is checked under the obligations like a literal of the helper
			}
			nA11++
			if why := r.blockingReason(callee, map[*ssa.Function]bool{}); why != "" {
				a.bad("A11", "blocking-helper:"+fnName(callee), ci, "the fan-out helper calls "+fnName(callee)+", which "+why+": synchronisation hidden in a helper is outside the checked protocol (a slot/semaphore held while the map function runs makes nested fan-outs wait for each other forever)")
			}
		}
	}

	// ---- inventory of concurrency constructs -------------------------------------------
	var gos []*ssa.Go
	var sends []*ssa.Send
	var selects []*ssa.Select
	var recvs []*ssa.UnOp
	var closes []ssa.CallInstruction // close(ch), deferred or not
	var mapCalls, redCalls []ssa.CallInstruction
	var wgAdd, wgDone, wgWait []ssa.CallInstruction
	var makeChans []*ssa.MakeChan
	for _, f := range a.all {
		for _, ins := range allInstrs(f) {
			switch x := ins.(type) {
			case *ssa.Go:
				gos = append(gos, x)
			case *ssa.Send:
				sends = append(sends, x)
			case *ssa.Select:
				selects = append(selects, x)
			case *ssa.UnOp:
				if x.Op == token.ARROW {
					recvs = append(recvs, x)
				}
			case *ssa.MakeChan:
				makeChans = append(makeChans, x)
			}
			if ci, ok := ins.(ssa.CallInstruction); ok {
				c := ci.Common()
				switch cn := calleeName(c); cn {
				case "(*sync.WaitGroup).Add", "(*sync.WaitGroup).Done", "(*sync.WaitGroup).Wait":
					// the obligations order these calls by their position; a deferred (or spawned)
					// one runs somewhere else: `defer wg.Wait()` joins after the done handshake,
					// `defer wg.Done()` in the reducer acknowledges only when the reducer returns
					if _, plain := ins.(*ssa.Call); !plain {
						a.bad("A10", "deferred-sync", ins, cn+" is deferred or started with go: it does not run where it stands, so the ordering obligations (Add before the spawns, Done after the effect, Wait before the handshake and the returns) say nothing about it")
					}
				}
				switch calleeName(c) {
				case "builtin:close":
					closes = append(closes, ci)
				case "(*sync.WaitGroup).Add":
					wgAdd = append(wgAdd, ci)
				case "(*sync.WaitGroup).Done":
					wgDone = append(wgDone, ci)
				case "(*sync.WaitGroup).Wait":
					wgWait = append(wgWait, ci)
				}
				if !c.IsInvoke() && c.StaticCallee() == nil {
					if _, isB := c.Value.(*ssa.Builtin); !isB {
						if a.isParam(c.Value, a.mapP) {
							mapCalls = append(mapCalls, ci)
						}
						if a.isParam(c.Value, a.redP) {
							redCalls = append(redCalls, ci)
						}
					}
				}
				// the function parameters must not escape to other callees
				for _, arg := range c.Args {
					if sc := c.StaticCallee(); sc != nil && a.adopted[r.P.declared(sc)] {
						break // handed to an adopted function: its calls are counted below
					}
					if _, isSig := arg.Type().Underlying().(*types.Signature); isSig {
						if a.isParam(arg, a.mapP) || a.isParam(arg, a.redP) {
							a.bad("A10", "func-param-escapes", ins, "mapFunc/reduceFunc is passed on to another callee; the number of times it runs is no longer decided by this function")
						}
					}
				}
			}
		}
	}

	// ---- A1: map-once -------------------------------------------------------------------
	if len(mapCalls) != 1 {
		var at ssa.Instruction
		if len(mapCalls) > 1 {
			at = mapCalls[1]
		}
		a.bad("A1", "mapFunc-call-sites", at, fmt.Sprintf("mapFunc is called at %d sites; exactly one is required for map-once", len(mapCalls)))
		return
	}
	S := mapCalls[0]
	W := S.Parent()
	if _, isCall := S.(*ssa.Call); !isCall {
		a.bad("A1", "mapFunc-call-kind", S, "mapFunc is started with go/defer instead of being called by the worker")
		return
	}
	var G ssa.CallInstruction
	if W == fn {
		a.bad("A1", "mapFunc-in-caller", S, "mapFunc is called by the helper's own goroutine, not by a per-item worker (shape not recognised)")
		return
	}
	ent := a.entrySites(W)
	// the spawn sits in the helper's body, or in the body of a literal that a library iterator
	// calls once per element of payload (lo.ForEach(payload, func(item, i) { go … }))
	var iter *itemIterator
	if len(ent) == 1 && ent[0].Parent() != fn {
		iter = a.itemIteratorOf(ent[0])
	}
	if len(ent) != 1 || (ent[0].Parent() != fn && iter == nil) {
		a.bad("A1", "worker-entry-sites", S, fmt.Sprintf("the worker literal is entered from %d sites; exactly one spawn in the helper body (or in the callback of a per-element iterator over payload) is required", len(ent)))
		return
	}
	G = ent[0]
	// Gtop: the instruction of the helper's own body that stands for "the workers are started"
	var Gtop ssa.Instruction = G
	if iter != nil {
		Gtop = iter.call
	}
	if _, isGo := G.(*ssa.Go); !isGo {
		// a synchronous call is still map-once; accept but note
		r.Notes = append(r.Notes, "worker is invoked synchronously (not with go)")
	}
	if blockInCycle(S.Block()) {
		a.bad("A1", "mapFunc-in-loop", S, "the mapFunc call lies in a loop inside the worker: an item can be mapped more than once (retry?)")
	} else if ok, ret := mustPass(W.Blocks[0], 0, func(i ssa.Instruction) bool { return i == ssa.Instruction(S) }); !ok {
		a.bad("A1", "mapFunc-skipped", ret, "a path through the worker returns without calling mapFunc: an item can be skipped")
	} else {
		a.ok("A1", "mapFunc-call", S, "single call site, on every entry→exit path of the worker, not in a cycle")
	}
	// the spawn must be executed exactly once per element of payload
	var loop map[*ssa.BasicBlock]bool
	var lp *payloadLoop
	if iter != nil {
		loop = map[*ssa.BasicBlock]bool{}
		lp = &payloadLoop{header: iter.call.Block(), iter: iter}
		if blockInCycle(iter.call.Block()) {
			a.bad("A1", "iterator-in-loop", iter.call, "the per-element iterator over payload is itself called in a loop: several workers per item")
			return
		}
		if blockInCycle(G.Block()) {
			a.bad("A1", "spawn-in-inner-loop", G, "the worker spawn lies in a loop inside the iterator callback: several workers per item")
			return
		}
		if okp, at := mustPass(iter.lit.Blocks[0], 0, func(i ssa.Instruction) bool { return i == ssa.Instruction(G) }); !okp {
			a.bad("A1", "spawn-skipped", at, "a path through the iterator callback returns without spawning the worker: an item is never mapped and Wait never returns")
			return
		}
		a.ok("A1", "payload-loop", iter.call, "worker spawned exactly once per element: the spawn is on every path of the callback that "+iter.name+" calls once for every element of payload")
	} else {
		loop = loopBlocks(G.Block())
		lp = a.payloadLoop(G, loop)
	}
	if lp == nil {
		return
	}
	// A1c: iteration-private argument
	a.checkItemArg(S, G, lp, loop)

	// ---- channels ------------------------------------------------------------------------
	chanOf := func(v ssa.Value) *ssa.MakeChan {
		rs := a.roots(v)
		if len(rs) == 1 {
			if mc, ok := rs[0].(*ssa.MakeChan); ok {
				return mc
			}
		}
		return nil
	}

	// ---- A2: one ack per item -----------------------------------------------------------
	call := S.(*ssa.Call)
	var resVal, errVal ssa.Value
	for _, ref := range *call.Referrers() {
		if ex, ok := ref.(*ssa.Extract); ok {
			if ex.Index == 0 {
				resVal = ex
			} else if ex.Index == 1 {
				errVal = ex
			}
		}
	}
	var cRes, cErr *ssa.MakeChan
	var wSends []*ssa.Send
	for _, s := range sends {
		if s.Parent() == W {
			wSends = append(wSends, s)
		}
	}
	for _, f := range withClosures(W) {
		if f != W {
			for _, ins := range allInstrs(f) {
				switch ins.(type) {
				case *ssa.Send, *ssa.Select, *ssa.Go:
					a.bad("A10", "nested-concurrency-in-worker", ins, "the worker starts goroutines or uses channels in a nested literal")
				}
			}
		}
	}
	for _, b := range W.Blocks {
		if blockInCycle(b) {
			a.bad("A2", "worker-has-loop", b.Instrs[0], "the worker contains a loop; the one-acknowledgement-per-item count cannot be established")
			return
		}
	}
	if errVal == nil || resVal == nil {
		a.bad("A2", "mapFunc-results", S, "the two results of mapFunc are not both used by the worker")
		return
	}
	// locate the err != nil split
	var split *ssa.If
	var errSucc, okSucc *ssa.BasicBlock
	for _, ins := range allInstrs(W) {
		iff, ok := ins.(*ssa.If)
		if !ok {
			continue
		}
		if bo, ok := iff.Cond.(*ssa.BinOp); ok {
			x, y := unwrap(bo.X), unwrap(bo.Y)
			if (x == errVal && isNilConst(y)) || (y == errVal && isNilConst(x)) {
				if bo.Op == token.NEQ {
					split, errSucc, okSucc = iff, iff.Block().Succs[0], iff.Block().Succs[1]
				} else if bo.Op == token.EQL {
					split, errSucc, okSucc = iff, iff.Block().Succs[1], iff.Block().Succs[0]
				}
			}
		}
	}
	if split == nil {
		a.bad("A2", "err-split", S, "the worker does not branch on `err != nil` of the mapFunc result")
		return
	}
	onSide := func(b, side *ssa.BasicBlock) bool {
		return len(side.Preds) == 1 && side.Dominates(b)
	}
	for _, s := range wSends {
		mc := chanOf(s.Chan)
		if mc == nil {
			a.bad("A2", "send-chan", s, "send on a channel that is not one of the helper's own channels")
			continue
		}
		if !instrDominates(S, s) {
			a.bad("A2", "ack-before-map", s, "acknowledgement is sent before mapFunc has run")
			continue
		}
		v := unwrap(s.X)
		switch {
		case v == errVal:
			if !onSide(s.Block(), errSucc) {
				a.bad("A2", "err-send-side", s, "the error is sent on a path not guarded by err != nil")
			} else if cErr != nil && cErr != mc {
				a.bad("A2", "err-chan", s, "errors are sent on two different channels")
			} else {
				cErr = mc
				a.ok("A2", "err-send", s, "error result sent on C_err under err != nil")
			}
		case v == resVal:
			if !onSide(s.Block(), okSucc) {
				a.bad("A2", "res-send-side", s, "the map result is sent on a path where err may be non-nil")
			} else if cRes != nil && cRes != mc {
				a.bad("A2", "res-chan", s, "results are sent on two different channels")
			} else {
				cRes = mc
				a.ok("A2", "res-send", s, "map result sent on C_res under err == nil")
			}
		default:
			a.bad("A2", "ack-value", s, "the worker sends a value that is neither the map result nor its error")
		}
	}
	if cRes == nil || cErr == nil || cRes == cErr {
		a.bad("A2", "ack-channels", S, "could not identify distinct result and error channels fed by the worker")
		return
	}
	mn, mx, cyc, _ := pathCount(W.Blocks[0], 0, nil, func(i ssa.Instruction) int {
		if _, ok := i.(*ssa.Send); ok {
			return 1
		}
		return 0
	})
	if cyc || mn != 1 || mx != 1 {
		a.bad("A2", "acks-per-item", S, fmt.Sprintf("a worker performs between %d and %d sends per item; exactly one acknowledgement is required (otherwise Wait returns early or never)", mn, mx))
	} else {
		a.ok("A2", "acks-per-item", S, "every entry→exit path of the worker performs exactly one send")
	}

	// ---- A3: serial reduce --------------------------------------------------------------
	if len(redCalls) != 1 {
		var at ssa.Instruction
		if len(redCalls) > 1 {
			at = redCalls[1]
		}
		a.bad("A3", "reduceFunc-call-sites", at, fmt.Sprintf("reduceFunc is called at %d sites; exactly one is required", len(redCalls)))
		return
	}
	Sr := redCalls[0]
	R := Sr.Parent()
	if R == fn && len(wgAdd)+len(wgDone)+len(wgWait) == 0 && len(gos) == 1 {
		// no reducer goroutine and no wait group: the caller itself collects one
		// acknowledgement per item and reduces between the receives
		a.collectorForm(&collectorIn{S: S, W: W, G: G, Gtop: Gtop, Sr: Sr, lp: lp, loop: loop, cRes: cRes, cErr: cErr,
			sends: sends, selects: selects, recvs: recvs, closes: closes, makeChans: makeChans, chanOf: chanOf})
		return
	}
	if R == W || R == fn {
		a.bad("A3", "reduce-context", Sr, "reduceFunc is not called from a dedicated reducer goroutine (called from a worker or the caller): reductions can overlap or run concurrently with workers")
		return
	}
	rent := a.entrySites(R)
	if len(rent) != 1 || rent[0].Parent() != fn {
		a.bad("A3", "reducer-entry-sites", Sr, fmt.Sprintf("the reducer literal is entered from %d sites; exactly one is required for serial reduction", len(rent)))
		return
	}
	Gr := rent[0]
	if blockInCycle(Gr.Block()) {
		a.bad("A3", "reducer-spawned-in-loop", Gr, "the reducer is spawned inside a loop: several reducers would run concurrently")
		return
	}
	a.setPre(Gtop, Gr)
	if _, isGo := Gr.(*ssa.Go); !isGo {
		a.bad("A3", "reducer-not-goroutine", Gr, "the reducer is not started with go: the caller would block before Wait")
		return
	}
	// cells
	accCell := a.cellStoring(a.accP)
	if accCell == nil {
		a.bad("A3", "acc-cell", Sr, "could not identify the accumulator cell")
		return
	}
	rc, isPlainCall := Sr.(*ssa.Call)
	if !isPlainCall {
		a.bad("A3", "reduceFunc-call-kind", Sr, "reduceFunc is started with go/defer instead of being called by the reducer: reductions can overlap and the result is not threaded into acc")
		return
	}
	accOK := false
	if len(rc.Call.Args) == 2 {
		if ld, ok := unwrap(rc.Call.Args[0]).(*ssa.UnOp); ok && ld.Op == token.MUL && a.cell(ld.X) == ssa.Value(accCell) {
			for _, ref := range *rc.Referrers() {
				if st, ok := ref.(*ssa.Store); ok && a.cell(st.Addr) == ssa.Value(accCell) && st.Val == ssa.Value(rc) {
					accOK = true
				}
			}
		}
	}
	if !accOK {
		a.bad("A3", "acc-threading", Sr, "reduceFunc is not applied as acc = reduceFunc(acc, v) on the accumulator cell")
	} else {
		a.ok("A3", "acc-threading", Sr, "acc = reduceFunc(acc, v), single site, single reducer goroutine spawned outside any loop")
	}

	// ---- A4: ack after effect; A7a reducer exit ------------------------------------------
	var sel *ssa.Select
	for _, s := range selects {
		if s.Parent() == R {
			if sel != nil {
				a.bad("A10", "second-select", s, "more than one select in the reducer")
			}
			sel = s
		} else {
			a.bad("A10", "stray-select", s, "select outside the reducer")
		}
	}
	if sel == nil || !sel.Blocking {
		a.bad("A4", "reducer-select", Sr, "the reducer does not wait with one blocking select over its channels (shape not recognised)")
		return
	}
	errsCell := a.errsCell()
	if errsCell == nil {
		a.bad("A4", "errs-cell", Sr, "could not identify the error-list cell")
		return
	}
	var wgCell ssa.Value
	if len(wgWait) == 1 {
		wgCell = a.wgOf(wgWait[0].Common().Args[0])
	}
	if wgCell == nil {
		a.bad("A6", "wait-sites", nil, fmt.Sprintf("%d calls of WaitGroup.Wait; exactly one is required", len(wgWait)))
		return
	}
	isDone := func(i ssa.Instruction) bool {
		for _, d := range wgDone {
			if ssa.Instruction(d) == i && a.wgOf(d.Common().Args[0]) == wgCell {
				return true
			}
		}
		return false
	}
	selIdx := func() ssa.Value {
		for _, ref := range *sel.Referrers() {
			if ex, ok := ref.(*ssa.Extract); ok && ex.Index == 0 {
				return ex
			}
		}
		return nil
	}()
	// the select's "received, not closed" flag (case v, ok := <-ch)
	var selOk ssa.Value
	for _, ref := range *sel.Referrers() {
		if ex, ok := ref.(*ssa.Extract); ok && ex.Index == 1 {
			selOk = ex
		}
	}
	// closedSide(b): b ends in a test of that flag; returns the successor taken when the channel
	// was closed and the one taken when a value was received
	closedSide := func(b *ssa.BasicBlock) (closed, open *ssa.BasicBlock) {
		if selOk == nil || len(b.Instrs) == 0 {
			return nil, nil
		}
		iff, ok := b.Instrs[len(b.Instrs)-1].(*ssa.If)
		if !ok {
			return nil, nil
		}
		if iff.Cond == selOk {
			return b.Succs[1], b.Succs[0]
		}
		if n, ok := iff.Cond.(*ssa.UnOp); ok && n.Op == token.NOT && n.X == selOk {
			return b.Succs[0], b.Succs[1]
		}
		return nil, nil
	}
	stateBody0 := func(k int) *ssa.BasicBlock {
		for _, ins := range allInstrs(R) {
			iff, ok := ins.(*ssa.If)
			if !ok {
				continue
			}
			if bo, ok := iff.Cond.(*ssa.BinOp); ok && bo.Op == token.EQL && bo.X == selIdx {
				if c, ok := bo.Y.(*ssa.Const); ok && c.Value != nil && constant.Compare(c.Value, token.EQL, constant.MakeInt64(int64(k))) {
					return iff.Block().Succs[0]
				}
			}
		}
		return nil
	}
	// a case that starts with `if !ok { … }` continues, for a received value, on the ok side;
	// the closed side is judged by the reducer-exit obligation below
	stateBody := func(k int) *ssa.BasicBlock {
		b := stateBody0(k)
		if b != nil {
			if cl, op := closedSide(b); cl != nil && len(op.Preds) == 1 {
				return op
			}
		}
		return b
	}
	recvVal := func(k int) ssa.Value {
		// the k-th receive state's value is extract #(2+number of earlier recv states)
		n := 0
		for i, st := range sel.States {
			if st.Dir == types.RecvOnly {
				if i == k {
					for _, ref := range *sel.Referrers() {
						if ex, ok := ref.(*ssa.Extract); ok && ex.Index == 2+n {
							return ex
						}
					}
					return nil
				}
				n++
			}
		}
		return nil
	}
	selBlock := sel.Block()
	doneSeen := map[ssa.Instruction]bool{}
	var cDone *ssa.MakeChan
	var doneBody *ssa.BasicBlock
	sawRes, sawErr := false, false
	for k, st := range sel.States {
		if st.Dir != types.RecvOnly {
			a.bad("A10", "select-send", sel, "the reducer's select contains a send case")
			continue
		}
		mc := chanOf(st.Chan)
		body := stateBody(k)
		if mc == nil || body == nil {
			a.bad("A4", "select-state", sel, fmt.Sprintf("select case %d: channel or case body could not be identified", k))
			continue
		}
		cnt := func(i ssa.Instruction) int {
			if isDone(i) {
				doneSeen[i] = true
				return 1
			}
			return 0
		}
		stopAtSel := func(b *ssa.BasicBlock) bool { return b == selBlock }
		switch mc {
		case cRes:
			sawRes = true
			mn, mx, cyc, _ := pathCount(body, 0, stopAtSel, cnt)
			good := !cyc && mn == 1 && mx == 1
			// the received value must be the one reduced, and Done must come after the store to acc
			if len(rc.Call.Args) == 2 && unwrap(rc.Call.Args[1]) != recvVal(k) {
				a.bad("A4", "reduced-value", Sr, "the value passed to reduceFunc is not the value received from C_res")
				good = false
			}
			if !body.Dominates(Sr.Block()) {
				a.bad("A4", "reduce-in-res-case", Sr, "reduceFunc is not called in the C_res case")
				good = false
			}
			var accStore *ssa.Store
			for _, ref := range *rc.Referrers() {
				if s, ok := ref.(*ssa.Store); ok && a.cell(s.Addr) == ssa.Value(accCell) {
					accStore = s
				}
			}
			for d := range doneSeen {
				if body.Dominates(d.Block()) && accStore != nil && !instrDominates(accStore, d) {
					a.bad("A4", "done-before-reduce", d, "wg.Done() in the result case is not ordered after acc = reduceFunc(acc, v): Wait can return before the last reduction is visible")
					good = false
				}
			}
			// every path from the case body back to the select must run the reduce call
			if okp, _ := mustPassUntil(body, selBlock, func(i ssa.Instruction) bool { return i == ssa.Instruction(Sr) }); !okp {
				a.bad("A4", "reduce-skipped", Sr, "a path through the C_res case skips reduceFunc: a successful result can be dropped")
				good = false
			}
			if !good || mn != 1 || mx != 1 {
				if mn != 1 || mx != 1 || cyc {
					a.bad("A4", "done-count-res", sel, fmt.Sprintf("the C_res case calls wg.Done() between %d and %d times per received result (exactly 1 required)", mn, mx))
				}
			} else {
				a.ok("A4", "res-case", Sr, "receive → reduce → store acc → exactly one wg.Done() → back to select")
			}
		case cErr:
			sawErr = true
			mn, mx, cyc, _ := pathCount(body, 0, stopAtSel, cnt)
			good := !cyc && mn == 1 && mx == 1
			rv := recvVal(k)
			var est *ssa.Store
			for _, ins := range allInstrs(R) {
				if s, ok := ins.(*ssa.Store); ok && a.cell(s.Addr) == ssa.Value(errsCell) && body.Dominates(s.Block()) {
					est = s
				}
			}
			if est == nil {
				a.bad("A4", "err-not-recorded", sel, "the C_err case does not store into the error list: an error is lost")
				good = false
			} else {
				depOld := false
				for _, ins := range allInstrs(R) {
					if ld, ok := ins.(*ssa.UnOp); ok && ld.Op == token.MUL && a.cell(ld.X) == ssa.Value(errsCell) && dependsOn(est.Val, ld) {
						depOld = true
					}
				}
				if rv == nil || !dependsOn(est.Val, rv) {
					a.bad("A4", "err-value", est, "the stored error list does not depend on the received error")
					good = false
				}
				if !depOld {
					a.bad("A4", "errs-overwritten", est, "the error list is overwritten instead of extended: earlier errors are lost")
					good = false
				}
				for d := range doneSeen {
					if body.Dominates(d.Block()) && !instrDominates(est, d) {
						a.bad("A4", "done-before-record", d, "wg.Done() in the error case is not ordered after the error is recorded")
						good = false
					}
				}
				if okp, _ := mustPassUntil(body, selBlock, func(i ssa.Instruction) bool { return i == ssa.Instruction(est) }); !okp {
					a.bad("A4", "err-record-skipped", est, "a path through the C_err case skips recording the error")
					good = false
				}
			}
			if mn != 1 || mx != 1 || cyc {
				a.bad("A4", "done-count-err", sel, fmt.Sprintf("the C_err case calls wg.Done() between %d and %d times per received error (exactly 1 required): Wait never returns or returns early", mn, mx))
			} else if good {
				a.ok("A4", "err-case", est, "receive → errs = extend(errs, err) → exactly one wg.Done() → back to select (the stored list depends on the received error; how many entries the extension adds for it — none for an empty ErrorList — is not checked)")
			}
		default:
			// candidate done channel: its body must leave the reducer without further effects
			if cDone != nil {
				a.bad("A10", "extra-select-case", sel, "the reducer's select has a case on an unexpected channel")
				continue
			}
			cDone = mc
			doneBody = body
			okRet := true
			seenB := map[*ssa.BasicBlock]bool{}
			var walk func(b *ssa.BasicBlock)
			walk = func(b *ssa.BasicBlock) {
				if seenB[b] {
					return
				}
				seenB[b] = true
				if b == selBlock {
					okRet = false
					return
				}
				for _, i := range b.Instrs {
					if isDone(i) || i == ssa.Instruction(Sr) {
						okRet = false
					}
				}
				for _, s := range b.Succs {
					walk(s)
				}
			}
			walk(body)
			if !okRet {
				a.bad("A7", "done-case-does-not-exit", sel, "the done case does not simply leave the reducer (it loops back, reduces or acknowledges)")
			} else {
				a.ok("A7", "reducer-exit", sel, "the reducer returns when it receives on C_done")
			}
		}
	}
	// A7a: the reducer leaves only through the done case. Any other return (out of a result or
	// error case, through a loop condition) lets it go while items are outstanding: the remaining
	// workers block on their send for ever and Wait never returns. A return taken only when a
	// received channel was closed is harmless: the helper closes its channels after the join and
	// the handshake (A6, A7, A9).
	if doneBody != nil {
		for _, ret := range returnsOf(R) {
			rb := ret.Block()
			if rb == doneBody || (len(doneBody.Preds) == 1 && doneBody.Dominates(rb)) {
				continue
			}
			viaClosed := false
			for _, b := range R.Blocks {
				if cl, _ := closedSide(b); cl != nil && len(cl.Preds) == 1 && (cl == rb || cl.Dominates(rb)) {
					viaClosed = true
				}
			}
			if viaClosed {
				a.ok("A7", "reducer-exit-on-closed", ret, "return taken only when a helper channel was closed, which happens after the join and the handshake")
				continue
			}
			a.bad("A7", "reducer-exit-early", ret, "the reducer goroutine can return on a path that is not the done case (out of a result/error case or through a loop condition): with items still outstanding their workers block on the send for ever and wg.Wait() never returns")
		}
	}
	if !sawRes || !sawErr {
		a.bad("A4", "select-cases", sel, "the reducer does not receive from both C_res and C_err")
	}
	for _, d := range wgDone {
		if !doneSeen[d] {
			a.bad("A4", "stray-done", d, "wg.Done() outside the two acknowledgement cases of the reducer")
		}
	}
	if len(recvs) > 0 {
		a.bad("A10", "stray-receive", recvs[0], "channel receive outside the reducer's select")
	}
	// sends other than the worker's two and the done handshake
	var doneSends []*ssa.Send
	for _, s := range sends {
		if s.Parent() == W {
			continue
		}
		if cDone != nil && chanOf(s.Chan) == cDone && s.Parent() == fn {
			doneSends = append(doneSends, s)
			continue
		}
		a.bad("A10", "stray-send", s, "channel send that is neither a worker acknowledgement nor the done handshake")
	}
	for _, g := range gos {
		if ssa.CallInstruction(g) != G && ssa.CallInstruction(g) != Gr {
			a.bad("A10", "stray-go", g, "additional goroutine started by the helper")
		}
	}
	for _, mc := range makeChans {
		if mc != cRes && mc != cErr && mc != cDone {
			a.bad("A10", "stray-chan", mc, "additional channel created by the helper")
		}
	}

	// ---- A5: count ----------------------------------------------------------------------
	a.checkAdd(wgAdd, wgCell, Gtop, Gr, loop)

	// ---- A6: join -----------------------------------------------------------------------
	wait := wgWait[0]
	if wait.Parent() != fn {
		a.bad("A6", "wait-context", wait, "wg.Wait() is not called by the helper's own goroutine")
		return
	}
	okJoin := true
	for _, ret := range returnsOf(fn) {
		if a.emptyRets[ret] {
			a.ok("A6", "empty-payload-return", ret, "return before any goroutine is started, taken only when len(payload) == 0: there is nothing to map, reduce or join")
			continue
		}
		if !instrDominates(wait, ret) {
			a.bad("A6", "return-without-wait", ret, "a return of the helper is not dominated by wg.Wait(): it can return before all items are mapped and reduced")
			okJoin = false
		}
	}
	if loop[wait.Block()] {
		a.bad("A6", "wait-in-loop", wait, "wg.Wait() is inside the spawning loop")
		okJoin = false
	}
	if !lp.header.Dominates(wait.Block()) || (lp.iter != nil && !instrDominates(lp.iter.call, wait)) {
		a.bad("A6", "wait-before-spawn", wait, "wg.Wait() is not ordered after the spawning loop")
		okJoin = false
	}
	if !instrDominates(Gr, wait) {
		a.bad("A6", "wait-before-reducer", wait, "wg.Wait() is not dominated by the reducer spawn: workers would block forever")
		okJoin = false
	}
	if okJoin {
		a.ok("A6", "join", wait, "wg.Wait() dominates every return and is ordered after both spawn sites")
	}

	// ---- A7b: done handshake ------------------------------------------------------------
	if cDone == nil {
		a.bad("A7", "done-channel", sel, "the reducer has no done case: it never terminates")
	} else {
		sz, isC := cDone.Size.(*ssa.Const)
		unbuf := isC && sz.Value != nil && constant.Sign(sz.Value) == 0
		if !unbuf {
			a.bad("A7", "done-buffered", cDone, "C_done is buffered: the handshake no longer proves the reducer has left its select before the channels are closed")
		}
		okHs := false
		for _, s := range doneSends {
			if instrDominates(wait, s) {
				all := true
				for _, ret := range returnsOf(fn) {
					if !instrDominates(s, ret) && !a.emptyRets[ret] {
						all = false
					}
				}
				// and before any rundefers (those of an empty-payload return run before any
				// goroutine exists)
				for _, ins := range allInstrs(fn) {
					if _, ok := ins.(*ssa.RunDefers); ok && !instrDominates(s, ins) && ins.Block() != fn.Recover && !a.emptyRetBlock(ins.Block()) {
						all = false
					}
				}
				if all {
					okHs = true
					a.ok("A7", "done-handshake", s, "send on unbuffered C_done after Wait and before every return/deferred close")
				}
			}
		}
		if !okHs {
			a.bad("A7", "done-handshake-missing", wait, "no send on C_done between wg.Wait() and the returns: the reducer goroutine is still selecting when the deferred closes run (it then reduces zero values / calls Done below zero, or leaks)")
		}
	}

	// ---- A8: read after join ------------------------------------------------------------
	a.checkReads(accCell, errsCell, wait, R)

	// ---- A9: close after join ---------------------------------------------------------
	for _, c := range closes {
		mc := chanOf(c.Common().Args[0])
		if mc == nil {
			a.bad("A9", "close-unknown", c, "close of a channel that is not one of the helper's own")
			continue
		}
		if c.Parent() != fn && a.deferredOnly(c.Parent()) {
			a.ok("A9", "deferred-close", c, "inside a literal that only runs as a deferred call of the helper: after Wait and the done handshake (A6, A7)")
			continue
		}
		if c.Parent() != fn {
			a.bad("A9", "close-in-goroutine", c, "a helper channel is closed by a goroutine other than the caller")
			continue
		}
		if _, isDefer := c.(*ssa.Defer); isDefer {
			a.ok("A9", "deferred-close", c, "deferred: runs after Wait and the done handshake (A6, A7)")
			continue
		}
		if !instrDominates(wait, c) {
			a.bad("A9", "close-before-join", c, "channel closed before wg.Wait(): a worker can send on a closed channel")
		} else {
			a.ok("A9", "close-after-join", c, "dominated by wg.Wait()")
		}
	}
	r.AtLeast(rule, "A-obligations", len(r.Obligs), 12)
}

// mustPassUntil: every path from the start of block `from` that comes back to `until`
// passes an instruction satisfying pred (paths that return are ignored).
func mustPassUntil(from, until *ssa.BasicBlock, pred func(ssa.Instruction) bool) (bool, ssa.Instruction) {
	seen := map[*ssa.BasicBlock]bool{}
	ok := true
	var visit func(b *ssa.BasicBlock)
	visit = func(b *ssa.BasicBlock) {
		if seen[b] || !ok {
			return
		}
		seen[b] = true
		if b == until {
			ok = false
			return
		}
		for _, i := range b.Instrs {
			if pred(i) {
				return
			}
		}
		for _, s := range b.Succs {
			visit(s)
		}
	}
	visit(from)
	return ok, nil
}

type payloadLoop struct {
	header *ssa.BasicBlock
	index  ssa.Value     // the value that is the element index inside the body
	iter   *itemIterator // set when the loop is a library iterator calling a literal per element
}

// itemIterator: a call, in the helper's body, of a library function that calls its function
// argument synchronously exactly once for every element of its slice argument, passing the
// element (and its index).
type itemIterator struct {
	call ssa.CallInstruction
	lit  *ssa.Function // the callback literal
	name string
	elem *ssa.Parameter // the callback's element parameter
	idx  *ssa.Parameter // the callback's index parameter (may be nil)
}

// perItemIterators: qualified name → positions of (slice, callback) arguments and of the
// (element, index) parameters of the callback. lo.ForEach is `for i, item := range collection
// { iteratee(item, i) }` (samber/lo slice.go).
var perItemIterators = map[string][4]int{
	"github.com/samber/lo.ForEach": {0, 1, 0, 1},
}

// itemIteratorOf: site lies in a literal whose only use is as the callback of a per-element
// iterator called by the helper's body on payload.
func (a *amr) itemIteratorOf(site ssa.CallInstruction) *itemIterator {
	lit := site.Parent()
	if lit == nil || lit.Parent() != a.fn {
		return nil
	}
	var found *itemIterator
	uses := 0
	for _, ins := range allInstrs(a.fn) {
		mc, ok := ins.(*ssa.MakeClosure)
		if !ok || mc.Fn != ssa.Value(lit) {
			continue
		}
		for _, ref := range *mc.Referrers() {
			uses++
			call, ok := ref.(*ssa.Call)
			if !ok {
				continue
			}
			sc := call.Call.StaticCallee()
			if sc == nil {
				continue
			}
			name := extName(sc)
			pos, known := perItemIterators[name]
			if !known || len(call.Call.Args) <= pos[0] || len(call.Call.Args) <= pos[1] {
				continue
			}
			if unwrap(call.Call.Args[pos[1]]) != ssa.Value(mc) || !a.isParam(call.Call.Args[pos[0]], a.payload) {
				continue
			}
			it := &itemIterator{call: call, lit: lit, name: name}
			if pos[2] < len(lit.Params) {
				it.elem = lit.Params[pos[2]]
			}
			if pos[3] < len(lit.Params) {
				it.idx = lit.Params[pos[3]]
			}
			if it.elem != nil {
				found = it
			}
		}
	}
	if uses != 1 {
		return nil
	}
	return found
}

// payloadLoop checks that the spawn G is executed exactly once for every index of payload.
func (a *amr) payloadLoop(G ssa.Instruction, loop map[*ssa.BasicBlock]bool) *payloadLoop {
	if len(loop) == 0 {
		a.bad("A1", "spawn-not-in-loop", G, "the worker is not spawned inside a loop over payload")
		return nil
	}
	// find header: the loop block with a predecessor outside the loop
	var header *ssa.BasicBlock
	for b := range loop {
		for _, p := range b.Preds {
			if !loop[p] {
				if header != nil && header != b {
					a.bad("A1", "loop-shape", G, "spawning loop has several entries")
					return nil
				}
				header = b
			}
		}
	}
	if header == nil {
		a.bad("A1", "loop-shape", G, "spawning loop header not found")
		return nil
	}
	// G must not be in a cycle that excludes the header (inner loop)
	inner := false
	{
		seen := map[*ssa.BasicBlock]bool{}
		var w []*ssa.BasicBlock
		w = append(w, G.Block().Succs...)
		for len(w) > 0 {
			x := w[len(w)-1]
			w = w[:len(w)-1]
			if x == header || seen[x] || !loop[x] {
				continue
			}
			seen[x] = true
			if x == G.Block() {
				inner = true
			}
			w = append(w, x.Succs...)
		}
	}
	if inner {
		a.bad("A1", "spawn-in-inner-loop", G, "the worker spawn lies in an inner loop: several workers per item")
		return nil
	}
	// every back edge to the header must come from a block dominated by G's block (each iteration spawns)
	for _, p := range header.Preds {
		if loop[p] && !(G.Block() == p || G.Block().Dominates(p)) {
			a.bad("A1", "spawn-skipped", G, "an iteration of the payload loop can skip the worker spawn (continue/conditional): an item is never mapped and Wait never returns")
			return nil
		}
	}
	// header phi / condition: i := phi[init, i+1]; cond: idx < len(payload)
	var iff *ssa.If
	for b := range loop {
		if x, ok := b.Instrs[len(b.Instrs)-1].(*ssa.If); ok {
			exits := 0
			for _, s := range b.Succs {
				if !loop[s] {
					// the `panic("blocking select matched no case")` arm go/ssa adds to a select
					// dispatch (or any other panic) is not a way to leave the loop quietly
					if _, isPanic := s.Instrs[len(s.Instrs)-1].(*ssa.Panic); isPanic {
						continue
					}
					exits++
				}
			}
			if exits > 0 {
				if iff != nil {
					a.bad("A1", "loop-exits", x, "the payload loop has more than one exit (break?): some items may never be mapped")
					return nil
				}
				iff = x
			}
		}
	}
	if iff == nil {
		a.bad("A1", "loop-cond", G, "the payload loop has no recognisable bound")
		return nil
	}
	bo, ok := iff.Cond.(*ssa.BinOp)
	if !ok || bo.Op != token.LSS {
		a.bad("A1", "loop-cond", iff, "loop condition is not `index < len(payload)`")
		return nil
	}
	if !a.isLenPayload(bo.Y) {
		a.bad("A1", "loop-bound", iff, "the loop bound is not len(payload): fewer or more workers than items")
		return nil
	}
	// induction: bo.X is either phi (init 0, step +1) or phi+1 (init -1)
	var phi *ssa.Phi
	init := int64(0)
	idx := bo.X
	if p, ok := bo.X.(*ssa.Phi); ok {
		phi = p
	} else if add, ok := bo.X.(*ssa.BinOp); ok && add.Op == token.ADD {
		if p, ok := add.X.(*ssa.Phi); ok && isIntConst(add.Y, 1) {
			phi = p
			init = -1
		}
	}
	if phi == nil || phi.Block() != header && !loop[phi.Block()] {
		a.bad("A1", "loop-induction", iff, "loop index is not a simple induction variable")
		return nil
	}
	// every edge from outside the loop carries the initial value, every back edge (there can be
	// several: each select case may jump back on its own) carries index+1
	okInd := len(phi.Edges) >= 2
	if okInd {
		nInit, nStep := 0, 0
		for i, e := range phi.Edges {
			pred := phi.Block().Preds[i]
			if !loop[pred] {
				if isIntConst(e, init) {
					nInit++
				} else {
					okInd = false
				}
			} else {
				if add, ok := e.(*ssa.BinOp); ok && add.Op == token.ADD && add.X == ssa.Value(phi) && isIntConst(add.Y, 1) {
					nStep++
				} else {
					okInd = false
				}
			}
		}
		okInd = okInd && nInit >= 1 && nStep >= 1
	}
	if !okInd {
		a.bad("A1", "loop-induction", iff, "loop index does not start at the first element and advance by one: items skipped or repeated")
		return nil
	}
	a.ok("A1", "payload-loop", iff, "worker spawned exactly once per index 0..len(payload)-1 (single-exit induction loop, spawn dominates the back edge, no inner loop)")
	return &payloadLoop{header: header, index: idx}
}

func isIntConst(v ssa.Value, n int64) bool {
	c, ok := v.(*ssa.Const)
	if !ok || c.Value == nil || c.Value.Kind() != constant.Int {
		return false
	}
	x, ok := constant.Int64Val(c.Value)
	return ok && x == n
}

func (a *amr) isLenPayload(v ssa.Value) bool {
	c, ok := v.(*ssa.Call)
	if !ok {
		return false
	}
	if b, ok := c.Call.Value.(*ssa.Builtin); !ok || b.Name() != "len" {
		return false
	}
	return a.isParam(c.Call.Args[0], a.payload)
}

// checkItemArg: the argument of mapFunc is this iteration's element.
func (a *amr) checkItemArg(S, G ssa.CallInstruction, lp *payloadLoop, loop map[*ssa.BasicBlock]bool) {
	args := S.Common().Args
	if len(args) != 1 {
		a.bad("A1c", "mapFunc-arity", S, "mapFunc is not called with exactly one argument")
		return
	}
	// isItem decides, in the helper's body, whether v is payload[index]
	var isItemTop func(v ssa.Value) (bool, string)
	isItemTop = func(v ssa.Value) (bool, string) {
		v = unwrap(v)
		if it := lp.iter; it != nil {
			if v == ssa.Value(it.elem) {
				return true, "the element the iterator passes to its callback"
			}
			if ld, ok := v.(*ssa.UnOp); ok && ld.Op == token.MUL {
				if ia, ok := ld.X.(*ssa.IndexAddr); ok {
					if a.isParam(ia.X, a.payload) && it.idx != nil && unwrap(ia.Index) == ssa.Value(it.idx) {
						return true, "payload[index the iterator passes to its callback]"
					}
					return false, "indexes something other than payload[callback index]"
				}
				// the callback's own (spilled) parameter or a local copy: one per invocation
				if al, ok := a.cell(ld.X).(*ssa.Alloc); ok && al.Parent() == it.lit {
					sts := storesTo(al)
					if len(sts) == 0 {
						return false, "reads a variable that is never assigned"
					}
					for _, st := range sts {
						if ok, why := isItemTop(st.Val); !ok {
							return false, why
						}
					}
					return true, "per-invocation variable of the iterator callback holding the element"
				}
			}
			return false, "is not the element the iterator passes to its callback"
		}
		if ld, ok := v.(*ssa.UnOp); ok && ld.Op == token.MUL {
			if ia, ok := ld.X.(*ssa.IndexAddr); ok {
				if a.isParam(ia.X, a.payload) && ia.Index == lp.index {
					return true, "payload[index]"
				}
				return false, "indexes something other than payload[loop index]"
			}
			if al, ok := a.cell(ld.X).(*ssa.Alloc); ok && al.Parent() == a.fn {
				if !loop[al.Block()] {
					return false, "reads a variable shared by all iterations"
				}
				for _, st := range storesTo(al) {
					if ok, why := isItemTop(st.Val); !ok {
						return false, why
					}
				}
				return true, "per-iteration variable holding payload[index]"
			}
		}
		return false, "is not payload[index]"
	}
	v := unwrap(args[0])
	switch x := v.(type) {
	case *ssa.Parameter:
		gi := paramIndex(x)
		gargs := G.Common().Args
		if x.Parent() == S.Parent() && gi >= 0 && gi < len(gargs) {
			if ok, why := isItemTop(gargs[gi]); ok {
				a.ok("A1c", "item-argument", S, "mapFunc's argument is the worker's parameter, bound at the spawn to "+why)
			} else {
				a.bad("A1c", "item-argument", G, "the value handed to the worker "+why+": items can be mapped twice or not at all")
			}
			return
		}
	case *ssa.UnOp:
		if x.Op == token.MUL {
			if ia, ok := x.X.(*ssa.IndexAddr); ok {
				// payload[i] inside the worker with i the worker's parameter
				if a.isParam(ia.X, a.payload) {
					if p, ok := ia.Index.(*ssa.Parameter); ok && p.Parent() == S.Parent() {
						gi := paramIndex(p)
						if gi < len(G.Common().Args) && ((lp.index != nil && G.Common().Args[gi] == lp.index) || (lp.iter != nil && lp.iter.idx != nil && unwrap(G.Common().Args[gi]) == ssa.Value(lp.iter.idx))) {
							a.ok("A1c", "item-argument", S, "payload[i] with i passed to the worker at the spawn")
							return
						}
					}
				}
			}
			cell := a.cell(x.X)
			if al, ok := cell.(*ssa.Alloc); ok && lp.iter != nil && al.Parent() == lp.iter.lit {
				if ok, why := isItemTop(x); ok {
					a.ok("A1c", "item-argument", S, why)
				} else {
					a.bad("A1c", "item-argument", S, "the value the worker maps "+why+": items can be mapped twice or not at all")
				}
				return
			}
			if al, ok := cell.(*ssa.Alloc); ok && al.Parent() == a.fn {
				if !loop[al.Block()] {
					a.bad("A1c", "captured-loop-variable", S, "the worker reads a captured variable that is shared by all iterations of the payload loop (module is go 1.18: one variable per loop): by the time a worker runs the variable may already hold a later item, so some items are mapped twice and others never")
					return
				}
				if ok, why := isItemTop(x); ok {
					a.ok("A1c", "item-argument", S, why)
					return
				}
			}
		}
	}
	a.bad("A1c", "item-argument", S, "could not show that mapFunc's argument is this iteration's element of payload")
}

// cellStoring finds the heap/local cell into which parameter p is spilled.
func (a *amr) cellStoring(p *ssa.Parameter) *ssa.Alloc {
	for _, ins := range allInstrs(a.fn) {
		if st, ok := ins.(*ssa.Store); ok && st.Val == ssa.Value(p) {
			if al, ok := st.Addr.(*ssa.Alloc); ok {
				return al
			}
		}
	}
	return nil
}

func (a *amr) errsCell() *ssa.Alloc {
	var out *ssa.Alloc
	for _, ins := range allInstrs(a.fn) {
		if al, ok := ins.(*ssa.Alloc); ok && al.Heap && namedOf(derefType(al.Type())) == modPath+"/gqlerrors.ErrorList" {
			if out != nil {
				return nil
			}
			out = al
		}
	}
	return out
}

func (a *amr) checkAdd(adds []ssa.CallInstruction, wgCell ssa.Value, G ssa.Instruction, Gr ssa.CallInstruction, loop map[*ssa.BasicBlock]bool) {
	if len(adds) != 1 {
		var at ssa.Instruction
		if len(adds) > 0 {
			at = adds[len(adds)-1]
		}
		a.bad("A5", "add-sites", at, fmt.Sprintf("%d calls of WaitGroup.Add; exactly one is required", len(adds)))
		return
	}
	add := adds[0]
	c := add.Common()
	if a.wgOf(c.Args[0]) != wgCell {
		a.bad("A5", "add-other-wg", add, "Add is called on a different WaitGroup than Wait")
		return
	}
	if add.Parent() != a.fn {
		a.bad("A5", "add-in-goroutine", add, "wg.Add is called from a goroutine: Wait can run before Add")
		return
	}
	if loop[add.Block()] {
		// per-iteration Add(1) before the spawn
		if isIntConst(c.Args[1], 1) && instrDominates(add, G) && !blockInInnerCycle(add.Block(), loop) {
			a.ok("A5", "add-per-item", add, "wg.Add(1) before each spawn")
			return
		}
		a.bad("A5", "add-in-loop", add, "wg.Add inside the loop is not Add(1) before the spawn")
		return
	}
	if !a.isLenPayload(c.Args[1]) {
		a.bad("A5", "add-count", add, "wg.Add is not called with len(payload): Wait returns early (count too small) or never (too large)")
		return
	}
	if !instrDominates(add, Gr) || !instrDominates(add, G) {
		a.bad("A5", "add-after-spawn", add, "wg.Add does not precede the spawns")
		return
	}
	a.ok("A5", "add-count", add, "wg.Add(len(payload)) once, before any goroutine is started")
}

func blockInInnerCycle(b *ssa.BasicBlock, loop map[*ssa.BasicBlock]bool) bool { return false }

// checkReads: acc and errs are written only by the reducer (plus the entry spill) and read
// by the caller only after Wait; the returned values are those cells.
func (a *amr) checkReads(accCell, errsCell *ssa.Alloc, wait ssa.CallInstruction, R *ssa.Function) {
	okAll := true
	for _, f := range a.all {
		for _, ins := range allInstrs(f) {
			switch x := ins.(type) {
			case *ssa.Store:
				c := a.cell(x.Addr)
				if c != ssa.Value(accCell) && c != ssa.Value(errsCell) {
					continue
				}
				if f == R {
					continue
				}
				if f == a.fn && x.Val == ssa.Value(a.accP) && c == ssa.Value(accCell) && instrDominates(x, wait) && !blockInCycle(x.Block()) {
					continue // entry spill of the parameter
				}
				if f == a.fn && a.pre[x.Block()] && c == ssa.Value(errsCell) && isNilConst(unwrap(x.Val)) {
					continue // the (still empty) list is set to nil before any goroutine exists
				}
				if f == a.fn && instrDominates(wait, x) {
					// after the join the caller owns the cells again, but what it returns must still be
					// what the reducer accumulated: only re-storing the cell's own value (the result
					// spill of a named result) or nil for an empty list leaves that intact
					if ld, ok := unwrap(x.Val).(*ssa.UnOp); ok && ld.Op == token.MUL && a.cell(ld.X) == c && instrDominates(wait, ld) {
						continue
					}
					if c == ssa.Value(errsCell) && isNilConst(unwrap(x.Val)) && a.underEmptyErrs(x.Block(), errsCell) {
						continue
					}
					okAll = false
					a.bad("A8", "result-rewritten-after-join", x, "acc/errs is assigned a new value between the join and the return: what the helper returns is no longer what the reducer accumulated (a shortened or filtered error list loses errors)")
					continue
				}
				okAll = false
				a.bad("A8", "shared-cell-write", x, "acc/errs is written outside the reducer goroutine before the join: data race with the reducer")
			case *ssa.UnOp:
				if x.Op != token.MUL {
					continue
				}
				c := a.cell(x.X)
				if c != ssa.Value(accCell) && c != ssa.Value(errsCell) {
					continue
				}
				if f == R {
					continue
				}
				if f == a.fn && instrDominates(wait, x) {
					continue
				}
				if f == a.fn && a.pre[x.Block()] {
					continue // no goroutine has been started yet: nobody else writes the cell
				}
				if f == a.fn && a.fn.Recover != nil && x.Block() == a.fn.Recover {
					continue // go/ssa's recover block reloads named results; it runs only after a recovered panic
				}
				okAll = false
				a.bad("A8", "read-before-join", x, "acc/errs is read outside the reducer before wg.Wait(): the value may miss reductions/errors")
			}
		}
	}
	// returned values
	for _, ret := range returnsOf(a.fn) {
		if len(ret.Results) != 2 {
			continue
		}
		r0 := a.retRoots(ret.Results[0], ret)
		r1 := a.retRoots(ret.Results[1], ret)
		good0 := len(r0) > 0
		for _, v := range r0 {
			ld, ok := v.(*ssa.UnOp)
			if !(ok && ld.Op == token.MUL && a.cell(ld.X) == ssa.Value(accCell)) {
				good0 = false
			}
		}
		if !good0 {
			okAll = false
			a.bad("A8", "returned-acc", ret, "the first result is not the accumulator cell read after the join")
		}
		good1 := len(r1) > 0
		for _, v := range r1 {
			if ld, ok := v.(*ssa.UnOp); ok && ld.Op == token.MUL && a.cell(ld.X) == ssa.Value(errsCell) {
				continue
			}
			if isNilConst(v) {
				// nil only when the list is empty
				if a.underEmptyErrs(ret.Block(), errsCell) || a.emptyRets[ret] {
					continue
				}
				a.bad("A8", "errors-dropped", ret, "the helper returns a nil error list on a path not guarded by len(errs) == 0: errors are lost")
				okAll = false
				good1 = true
				continue
			}
			good1 = false
		}
		if !good1 {
			okAll = false
			a.bad("A8", "returned-errs", ret, "the second result is not the error-list cell read after the join")
		}
	}
	if okAll {
		a.ok("A8", "read-after-join", wait, "acc/errs are touched only by the reducer until Wait; both results are those cells (nil only under len(errs)==0)")
	}
}

// retRoots follows a returned value through the defer-spill locals of go/ssa. Only the
// stores that reach this return (same block, before it) are considered when the local is
// re-assigned on every path.
func (a *amr) retRoots(v ssa.Value, ret *ssa.Return) []ssa.Value {
	v = unwrap(v)
	if ld, ok := v.(*ssa.UnOp); ok && ld.Op == token.MUL {
		if al, ok := ld.X.(*ssa.Alloc); ok && !al.Heap {
			var out []ssa.Value
			for _, st := range storesTo(al) {
				if st.Block() == ret.Block() || st.Block().Dominates(ret.Block()) {
					out = append(out, unwrap(st.Val))
				}
			}
			if len(out) > 0 {
				// keep only the last store in the return's own block when present
				var last *ssa.Store
				for _, st := range storesTo(al) {
					if st.Block() == ret.Block() {
						last = st
					}
				}
				if last != nil {
					return []ssa.Value{unwrap(last.Val)}
				}
				return out
			}
		}
	}
	if p, ok := v.(*ssa.Phi); ok {
		var out []ssa.Value
		for _, e := range p.Edges {
			out = append(out, a.retRoots(e, ret)...)
		}
		return out
	}
	return []ssa.Value{v}
}

func (a *amr) emptyRetBlock(b *ssa.BasicBlock) bool {
	for ret := range a.emptyRets {
		if ret.Block() == b {
			return true
		}
	}
	return false
}

// underEmptyErrs: block b is on the "list is empty" side of a test of the errs cell.
func (a *amr) underEmptyErrs(b *ssa.BasicBlock, errsCell *ssa.Alloc) bool {
	isErrs := func(v ssa.Value) bool {
		ld, ok := unwrap(v).(*ssa.UnOp)
		return ok && ld.Op == token.MUL && a.cell(ld.X) == ssa.Value(errsCell)
	}
	return a.underEmpty(b, isErrs)
}

// underEmptyPayload: block b is on the len(payload)==0 side of a test of the payload parameter.
func (a *amr) underEmptyPayload(b *ssa.BasicBlock) bool {
	return a.underEmpty(b, func(v ssa.Value) bool { return a.isParam(v, a.payload) })
}

// underEmpty: block b is reached only through the "empty" side of a test of the slice
// recognised by isVal: len(x) == 0, len(x) > 0, len(x) < 1, 0 < len(x), x == nil, x != nil …
// (a nil slice is an empty slice; `x == nil` being false says nothing, which is the safe side).
func (a *amr) underEmpty(b *ssa.BasicBlock, isVal func(ssa.Value) bool) bool {
	isLen := func(v ssa.Value) bool {
		c, ok := v.(*ssa.Call)
		if !ok {
			return false
		}
		if bi, ok := c.Call.Value.(*ssa.Builtin); !ok || bi.Name() != "len" {
			return false
		}
		return isVal(c.Call.Args[0])
	}
	for _, ins := range allInstrs(a.fn) {
		iff, ok := ins.(*ssa.If)
		if !ok {
			continue
		}
		bo, ok := iff.Cond.(*ssa.BinOp)
		if !ok {
			continue
		}
		op, x, y := bo.Op, bo.X, bo.Y
		if !isLen(x) && !isVal(x) {
			// constant on the left: mirror the comparison
			x, y = y, x
			switch op {
			case token.LSS:
				op = token.GTR
			case token.GTR:
				op = token.LSS
			case token.LEQ:
				op = token.GEQ
			case token.GEQ:
				op = token.LEQ
			}
		}
		var emptySide *ssa.BasicBlock
		switch {
		case isVal(x) && isNilConst(unwrap(y)) && op == token.NEQ:
			emptySide = iff.Block().Succs[1]
		case isVal(x) && isNilConst(unwrap(y)) && op == token.EQL:
			emptySide = iff.Block().Succs[0]
		case isLen(x) && isIntConst(y, 0) && (op == token.GTR || op == token.NEQ):
			emptySide = iff.Block().Succs[1]
		case isLen(x) && isIntConst(y, 0) && (op == token.EQL || op == token.LEQ):
			emptySide = iff.Block().Succs[0]
		case isLen(x) && isIntConst(y, 1) && op == token.LSS:
			emptySide = iff.Block().Succs[0]
		case isLen(x) && isIntConst(y, 1) && op == token.GEQ:
			emptySide = iff.Block().Succs[1]
		}
		if emptySide != nil && len(emptySide.Preds) == 1 && (emptySide == b || emptySide.Dominates(b)) {
			return true
		}
	}
	return false
}

// blockingReason: fn (or a module function it calls) performs a channel operation, a select,
// takes a lock, waits on a wait group or sleeps. "" if none.
func (r *Run) blockingReason(fn *ssa.Function, seen map[*ssa.Function]bool) string {
	if fn == nil || seen[fn] || fn.Blocks == nil {
		return ""
	}
	seen[fn] = true
	for _, f := range withClosures(fn) {
		for _, ins := range allInstrs(f) {
			switch x := ins.(type) {
			case *ssa.Send:
				return "sends on a channel at " + r.P.pos(x.Pos())
			case *ssa.Select:
				return "selects at " + r.P.pos(x.Pos())
			case *ssa.UnOp:
				if x.Op == token.ARROW {
					return "receives from a channel at " + r.P.pos(x.Pos())
				}
			case ssa.CallInstruction:
				switch n := calleeName(x.Common()); n {
				case "(*sync.Mutex).Lock", "(*sync.RWMutex).Lock", "(*sync.RWMutex).RLock", "(*sync.WaitGroup).Wait", "time.Sleep", "(*sync.Cond).Wait":
					return "calls " + n + " at " + r.P.pos(x.Pos())
				}
				if sc := x.Common().StaticCallee(); sc != nil && inModule(sc) {
					if why := r.blockingReason(r.P.declared(sc), seen); why != "" {
						return why
					}
				}
			}
		}
	}
	return ""
}
