package main

import (
	"go/types"
	"sort"
	"strings"

	"golang.org/x/tools/go/ssa"
)

// Edge is a resolved call from a module function to a module function.
type Edge struct {
	Site   ssa.CallInstruction
	Caller *ssa.Function
	Callee *ssa.Function
	Kind   string // static | invoke | dynamic | extarg (function value handed to a callee without body: assumed called there)
}

// ExtCall is a call whose callee has no body in the module.
type ExtCall struct {
	Site   ssa.CallInstruction
	Caller *ssa.Function
	Callee *ssa.Function // static external callee, or nil
	Method *types.Func   // interface method for invoke-mode calls with no module implementer, or nil
	Name   string        // qualified name: "net/http.(*Client).Do", "sync.(*WaitGroup).Done", "error.Error"
}

type CallGraph struct {
	Out        map[*ssa.Function][]*Edge
	In         map[*ssa.Function][]*Edge
	Ext        map[*ssa.Function][]*ExtCall
	Unresolved map[ssa.CallInstruction]string // dynamic calls with an unknown (external) source of function values
	P          *Prog
	viaParam   bool // set by funcValues when the resolution went through a parameter of a module function
	namedTypes []types.Type
	edgeSeen   map[edgeKey]bool
}

type edgeKey struct {
	site   ssa.CallInstruction
	callee *ssa.Function
}

func origin(fn *ssa.Function) *ssa.Function {
	if fn != nil && fn.Origin() != nil {
		return fn.Origin()
	}
	return fn
}

func (cg *CallGraph) addEdge(site ssa.CallInstruction, caller, callee *ssa.Function, kind string) bool {
	callee = origin(callee)
	k := edgeKey{site, callee}
	if cg.edgeSeen[k] {
		return false
	}
	cg.edgeSeen[k] = true
	e := &Edge{Site: site, Caller: caller, Callee: callee, Kind: kind}
	cg.Out[caller] = append(cg.Out[caller], e)
	cg.In[callee] = append(cg.In[callee], e)
	return true
}

// declared returns the declared (source) function behind wrappers and bound-method closures.
func (P *Prog) declared(fn *ssa.Function) *ssa.Function {
	if fn == nil {
		return nil
	}
	if fn.Origin() != nil {
		fn = fn.Origin()
	}
	if fn.Synthetic != "" && fn.Object() != nil {
		if f, ok := fn.Object().(*types.Func); ok {
			if d := P.SSA.FuncValue(f); d != nil {
				return origin(d)
			}
		}
	}
	return fn
}

func extName(fn *ssa.Function) string {
	if fn == nil {
		return "?"
	}
	if fn.Origin() != nil {
		fn = fn.Origin()
	}
	if obj := fn.Object(); obj != nil {
		if f, ok := obj.(*types.Func); ok {
			full := f.FullName()
			if old, ok := renamedFuncs[fn]; ok {
				// a renamed function keeps the qualified name it was confirmed under
				full = strings.TrimSuffix(full, "."+f.Name()) + old[strings.LastIndex(old, "."):]
			}
			return full
		}
	}
	return fn.String()
}

func buildCallGraph(P *Prog) *CallGraph {
	cg := &CallGraph{
		Out: map[*ssa.Function][]*Edge{}, In: map[*ssa.Function][]*Edge{}, Ext: map[*ssa.Function][]*ExtCall{},
		Unresolved: map[ssa.CallInstruction]string{}, P: P, edgeSeen: map[edgeKey]bool{},
	}
	for _, sp := range P.SSAPkgs {
		for _, m := range sp.Members {
			if t, ok := m.(*ssa.Type); ok {
				cg.namedTypes = append(cg.namedTypes, t.Type())
			}
		}
	}
	sort.Slice(cg.namedTypes, func(i, j int) bool { return cg.namedTypes[i].String() < cg.namedTypes[j].String() })

	type dyn struct {
		site   ssa.CallInstruction
		caller *ssa.Function
	}
	var dyns []dyn
	extSeen := map[ssa.CallInstruction]bool{}
	for _, fn := range P.Funcs {
		for _, b := range fn.Blocks {
			for _, ins := range b.Instrs {
				site, ok := ins.(ssa.CallInstruction)
				if !ok {
					continue
				}
				c := site.Common()
				if c.IsInvoke() {
					impls := cg.implementers(c)
					for _, m := range impls {
						cg.addEdge(site, fn, m, "invoke")
					}
					// an interface method may also be implemented outside the module
					recvT := c.Value.Type()
					name := types.TypeString(recvT, func(p *types.Package) string { return p.Path() }) + "." + c.Method.Name()
					if isHTTPDo(c) {
						name = "(*net/http.Client).Do"
					}
					cg.Ext[fn] = append(cg.Ext[fn], &ExtCall{Site: site, Caller: fn, Method: c.Method, Name: name})
					extSeen[site] = true
				} else if sc := c.StaticCallee(); sc != nil {
					d := P.declared(sc)
					if inModule(d) && d.Blocks != nil {
						cg.addEdge(site, fn, d, "static")
					} else {
						cg.Ext[fn] = append(cg.Ext[fn], &ExtCall{Site: site, Caller: fn, Callee: sc, Name: extName(sc)})
						extSeen[site] = true
					}
				} else if _, isBuiltin := c.Value.(*ssa.Builtin); !isBuiltin {
					dyns = append(dyns, dyn{site, fn})
				}
			}
		}
	}
	// function values handed to body-less callees are assumed to be called there (lo.Map, sort.Slice, ...)
	for _, fn := range P.Funcs {
		for _, ec := range cg.Ext[fn] {
			for _, a := range ec.Site.Common().Args {
				fs, _ := cg.funcValues(a, map[ssa.Value]bool{})
				for _, f := range fs {
					cg.addEdge(ec.Site, fn, f, "extarg")
				}
			}
		}
	}
	// dynamic calls: iterate to a fix-point because parameters are resolved through call sites
	for round := 0; round < 10; round++ {
		changed := false
		for _, d := range dyns {
			cg.viaParam = false
			fs, unknown := cg.funcValues(d.site.Common().Value, map[ssa.Value]bool{})
			kind := "dynamic"
			if cg.viaParam {
				// the callee is whatever the callers of the enclosing higher-order function
				// passed in: context-insensitive, so reachability ignores these edges and uses
				// the per-call-site "hoarg" edges added below instead
				kind = "param"
			}
			for _, f := range fs {
				if cg.addEdge(d.site, d.caller, f, kind) {
					changed = true
				}
			}
			if unknown != "" {
				cg.Unresolved[d.site] = unknown
			} else {
				delete(cg.Unresolved, d.site)
			}
		}
		// a function value passed to a module function that (transitively) calls its
		// parameter is called on behalf of the passing call site
		for _, fn := range P.Funcs {
			for _, e := range append([]*Edge{}, cg.Out[fn]...) {
				if e.Kind == "param" || e.Kind == "hoarg" || e.Kind == "extarg" {
					continue
				}
				for _, a := range e.Site.Common().Args {
					if _, isSig := a.Type().Underlying().(*types.Signature); !isSig {
						continue
					}
					fs, _ := cg.funcValues(a, map[ssa.Value]bool{})
					for _, f := range fs {
						if cg.addEdge(e.Site, fn, f, "hoarg") {
							changed = true
						}
					}
				}
			}
		}
		if !changed {
			break
		}
	}
	return cg
}

// implementers lists module methods that an invoke-mode call may dispatch to.
func (cg *CallGraph) implementers(c *ssa.CallCommon) []*ssa.Function {
	iface, ok := c.Value.Type().Underlying().(*types.Interface)
	if !ok {
		return nil
	}
	var out []*ssa.Function
	seen := map[*ssa.Function]bool{}
	for _, T := range cg.namedTypes {
		if types.IsInterface(T) {
			continue
		}
		for _, t := range []types.Type{T, types.NewPointer(T)} {
			if !types.Implements(t, iface) {
				continue
			}
			sel := cg.P.SSA.MethodSets.MethodSet(t).Lookup(c.Method.Pkg(), c.Method.Name())
			if sel == nil {
				continue
			}
			f, ok := sel.Obj().(*types.Func)
			if !ok {
				continue
			}
			d := cg.P.SSA.FuncValue(f)
			if d == nil {
				continue
			}
			d = origin(d)
			if inModule(d) && d.Blocks != nil && !seen[d] {
				seen[d] = true
				out = append(out, d)
			}
		}
	}
	return out
}

// funcValues resolves which module functions a function-typed value can be.
// unknown is non-empty when some source of the value is outside the analysis.
func (cg *CallGraph) funcValues(v ssa.Value, seen map[ssa.Value]bool) (fns []*ssa.Function, unknown string) {
	if v == nil || seen[v] {
		return nil, ""
	}
	seen[v] = true
	if _, ok := v.Type().Underlying().(*types.Signature); !ok {
		// only function-typed values (and wrappers around them) are of interest
		switch v.(type) {
		case *ssa.MakeInterface, *ssa.ChangeInterface:
		default:
			return nil, ""
		}
	}
	merge := func(f []*ssa.Function, u string) {
		fns = append(fns, f...)
		if u != "" && unknown == "" {
			unknown = u
		}
	}
	switch v := v.(type) {
	case *ssa.Function:
		d := cg.P.declared(v)
		if inModule(d) && d.Blocks != nil {
			return []*ssa.Function{d}, ""
		}
		return nil, "external function " + extName(v)
	case *ssa.MakeClosure:
		if f, ok := v.Fn.(*ssa.Function); ok {
			d := cg.P.declared(f)
			if inModule(d) && d.Blocks != nil {
				return []*ssa.Function{d}, ""
			}
			return nil, "external closure"
		}
	case *ssa.Const:
		return nil, "" // nil func
	case *ssa.Phi:
		for _, e := range v.Edges {
			merge(cg.funcValues(e, seen))
		}
		return
	case *ssa.ChangeType:
		return cg.funcValues(v.X, seen)
	case *ssa.Convert:
		return cg.funcValues(v.X, seen)
	case *ssa.MakeInterface:
		return cg.funcValues(v.X, seen)
	case *ssa.Parameter:
		cg.viaParam = true
		fn := v.Parent()
		idx := -1
		for i, p := range fn.Params {
			if p == v {
				idx = i
			}
		}
		ins := cg.In[origin(fn)]
		if len(ins) == 0 {
			return nil, "parameter " + v.Name() + " of " + fnName(fn) + " (no module caller)"
		}
		for _, e := range ins {
			args := e.Site.Common().Args
			if e.Kind == "extarg" || e.Kind == "invoke" && len(args) != len(fn.Params) {
				// invoke: receiver is not in Args
				if e.Kind == "invoke" && idx >= 1 && idx-1 < len(args) {
					merge(cg.funcValues(args[idx-1], seen))
					continue
				}
				merge(nil, "parameter "+v.Name()+" of "+fnName(fn)+" supplied by external code")
				continue
			}
			if idx >= 0 && idx < len(args) {
				merge(cg.funcValues(args[idx], seen))
			}
		}
		if isExported(fn) {
			// exported API: external callers may pass anything; rules decide whether that matters
		}
		return
	case *ssa.UnOp:
		// load: from a captured cell, a local cell, a field or a global
		return cg.cellValues(v.X, seen)
	case *ssa.Call:
		// value returned by a call: follow the callee's return values
		for _, e := range cg.calleesOf(v) {
			for _, b := range e.Blocks {
				if r, ok := b.Instrs[len(b.Instrs)-1].(*ssa.Return); ok {
					for _, res := range r.Results {
						merge(cg.funcValues(res, seen))
					}
				}
			}
		}
		if len(cg.calleesOf(v)) == 0 {
			merge(nil, "result of external call")
		}
		return
	case *ssa.Extract, *ssa.Lookup, *ssa.TypeAssert, *ssa.Index, *ssa.Field:
		return nil, "function value obtained through " + v.String()
	}
	return nil, "function value of unrecognised form " + v.String()
}

func isExported(fn *ssa.Function) bool {
	return fn.Object() != nil && fn.Object().Exported()
}

func (cg *CallGraph) calleesOf(c *ssa.Call) []*ssa.Function {
	var out []*ssa.Function
	for _, e := range cg.Out[c.Parent()] {
		if e.Site == ssa.CallInstruction(c) {
			out = append(out, e.Callee)
		}
	}
	return out
}

// cellValues resolves the function values stored into the memory cell addr.
func (cg *CallGraph) cellValues(addr ssa.Value, seen map[ssa.Value]bool) (fns []*ssa.Function, unknown string) {
	if seen[addr] {
		return nil, ""
	}
	seen[addr] = true
	merge := func(f []*ssa.Function, u string) {
		fns = append(fns, f...)
		if u != "" && unknown == "" {
			unknown = u
		}
	}
	switch a := addr.(type) {
	case *ssa.FreeVar:
		// find the binding in the enclosing function's MakeClosure
		fn := a.Parent()
		idx := -1
		for i, fv := range fn.FreeVars {
			if fv == a {
				idx = i
			}
		}
		par := fn.Parent()
		found := false
		if par != nil {
			for _, b := range par.Blocks {
				for _, ins := range b.Instrs {
					if mc, ok := ins.(*ssa.MakeClosure); ok && mc.Fn == ssa.Value(fn) && idx < len(mc.Bindings) {
						found = true
						merge(cg.cellValues(mc.Bindings[idx], seen))
					}
				}
			}
		}
		if !found {
			merge(nil, "free variable "+a.Name()+" without binding")
		}
		return
	case *ssa.Alloc:
		// all stores to this cell, in the allocating function and in closures that capture it
		for _, st := range storesTo(a) {
			merge(cg.funcValues(st.Val, seen))
		}
		return
	case *ssa.FieldAddr:
		fld := fieldOf(a)
		if fld == nil {
			return nil, "field address of unknown struct"
		}
		n := 0
		for _, fn := range cg.P.Funcs {
			for _, b := range fn.Blocks {
				for _, ins := range b.Instrs {
					if st, ok := ins.(*ssa.Store); ok {
						if fa, ok := st.Addr.(*ssa.FieldAddr); ok && fieldOf(fa) == fld {
							n++
							merge(cg.funcValues(st.Val, seen))
						}
					}
				}
			}
		}
		// composite literals of the struct also store through FieldAddr in SSA, so n counts them.
		if fld.Exported() {
			merge(nil, "exported field "+fld.Name()+" may be set by external code")
		} else if n == 0 {
			merge(nil, "field "+fld.Name()+" is never stored in the module")
		}
		return
	case *ssa.Global:
		return nil, "function value in global " + a.Name()
	case *ssa.IndexAddr:
		return nil, "function value in slice/array element"
	}
	return nil, "function value loaded from " + addr.String()
}

// storesTo returns every Store whose address is exactly the cell a, searching the
// allocating function and all closures nested in it that capture the cell.
func storesTo(a *ssa.Alloc) []*ssa.Store {
	var out []*ssa.Store
	var visit func(fn *ssa.Function, cell ssa.Value)
	visit = func(fn *ssa.Function, cell ssa.Value) {
		for _, b := range fn.Blocks {
			for _, ins := range b.Instrs {
				switch ins := ins.(type) {
				case *ssa.Store:
					if ins.Addr == cell {
						out = append(out, ins)
					}
				case *ssa.MakeClosure:
					for i, bv := range ins.Bindings {
						if bv == cell {
							if cf, ok := ins.Fn.(*ssa.Function); ok && i < len(cf.FreeVars) {
								visit(cf, cf.FreeVars[i])
							}
						}
					}
				}
			}
		}
	}
	visit(a.Parent(), a)
	return out
}

// fieldOf returns the struct field object addressed by a FieldAddr.
func fieldOf(fa *ssa.FieldAddr) *types.Var {
	t := fa.X.Type()
	if p, ok := t.Underlying().(*types.Pointer); ok {
		t = p.Elem()
	}
	st, ok := t.Underlying().(*types.Struct)
	if !ok || fa.Field >= st.NumFields() {
		return nil
	}
	return st.Field(fa.Field)
}

func fieldOfVal(f *ssa.Field) *types.Var {
	st, ok := f.X.Type().Underlying().(*types.Struct)
	if !ok || f.Field >= st.NumFields() {
		return nil
	}
	return st.Field(f.Field)
}

// Reachable returns the set of module functions reachable from the roots.
// skip, when non-nil, prunes edges.
func (cg *CallGraph) Reachable(roots []*ssa.Function, skip func(*Edge) bool) map[*ssa.Function]bool {
	return cg.reach(roots, skip, false)
}

// ReachableAll also follows the context-insensitive "param" edges (used to decide whether
// code may run on a goroutine spawned inside a higher-order helper).
func (cg *CallGraph) ReachableAll(roots []*ssa.Function) map[*ssa.Function]bool {
	return cg.reach(roots, nil, true)
}

func (cg *CallGraph) reach(roots []*ssa.Function, skip func(*Edge) bool, withParam bool) map[*ssa.Function]bool {
	seen := map[*ssa.Function]bool{}
	var work []*ssa.Function
	for _, r := range roots {
		if r != nil && !seen[r] {
			seen[r] = true
			work = append(work, r)
		}
	}
	for len(work) > 0 {
		fn := work[len(work)-1]
		work = work[:len(work)-1]
		for _, e := range cg.Out[fn] {
			if e.Kind == "param" && !withParam {
				continue // replaced by the context-sensitive "hoarg" edges at the passing call site
			}
			if skip != nil && skip(e) {
				continue
			}
			if !seen[e.Callee] {
				seen[e.Callee] = true
				work = append(work, e.Callee)
			}
		}
		// closures created in fn are considered reachable when fn is (they may be stored and called later)
		for _, an := range fn.AnonFuncs {
			if !seen[an] {
				seen[an] = true
				work = append(work, an)
			}
		}
	}
	return seen
}
