package main

import "strings"

const amrLemma = " The fan-out helper's protocol conformance (R1) is re-checked as a lemma because termination and exactly-once mapping of every AsyncMapReduce call site rest on it."

type scope struct {
	label string
	roots []string
}

var (
	scHTTP       = scope{"http", []string{"pebbles.(*Gateway).queryHandler"}}
	scDownstream = scope{"downstream", []string{"executor.(ParallelExecutor).Execute", "queryer.(*MultiOpQueryer).Query"}}
	scMerger     = scope{"merger", []string{"merger.(ExtendMergerFunc).Merge", "merger.(SanitizeNodeMergerFunc).Merge"}}
	scStartup    = scope{"startup", []string{"pebbles.NewGateway"}}
	scSubEvent   = scope{"sub-event", []string{"pebbles.(*subscriptionEntry).Listen", "pebbles.(*Gateway).newSubscriptionEntry"}}
	scSubTear    = scope{"sub-teardown", []string{"pebbles.(*Gateway).subscriptionHandler", "pebbles.(*subscriptionEntry).Listen", "pebbles.(*subscriptionEntry).Close", "queryer.(*MultiOpQueryer).Subscribe"}}
	scUpload     = scope{"upload", []string{"requests.Parse", "queryer.(*MultiOpQueryer).fetchFile"}}
	scIntrospect = scope{"introspect", []string{"introspection.(*ParallelRemoteSchemaIntrospector).IntrospectRemoteSchemas"}}
	scQueryer    = scope{"queryer", []string{"queryer.(*MultiOpQueryer).Query"}}
)

func r7(s scope) ruleFn { return rulePanic(panicScope{label: s.label, roots: s.roots}) }
func r6(s scope, min int) ruleFn {
	return ruleErr(errScope{label: s.label, roots: s.roots, min: min})
}

func init() {
	register("C07", "panic-freedom obligations (R7) over every function reachable from the HTTP handler."+amrLemma, r7(scHTTP), r6(scHTTP, 40), ruleAMR)
	register("C09", "R7 over downstream response handling."+amrLemma, r7(scDownstream), r6(scDownstream, 15), ruleAMR)
	register("C05", "R7 over the merger.", r7(scMerger), r6(scStartup, 10))
	register("C17", "R7 over the per-event path.", r7(scSubEvent), r6(scSubEvent, 5))
	register("C18", "R7 over the websocket handler and teardown.", r7(scSubTear), r6(scSubTear, 10))
	register("C19", "R7 over upload parsing and re-encoding.", r7(scUpload), r6(scUpload, 10))
	register("C15", "R7 over schema reconstruction.", r7(scIntrospect), r6(scIntrospect, 5))
	register("C11", "", r7(scQueryer), r6(scQueryer, 8), ruleAMR)
	detectors := []ruleFn{ruleErrorsBeforeData("queryer.(*MultiOpQueryer).queryBatch", "pebbles.(*subscriptionEntry).prepareResponse"), ruleStatusCheck, ruleCountCheck, ruleNodeChecks}
	register("C10", "", ruleGate, ruleOperationSelection, ruleCallers(nil), ruleGoSites, r6(scHTTP, 40), detectors[0])
	register("C09", "", detectors...)
	register("C17", "", detectors[0])
	batch := []ruleFn{ruleResultIndex, ruleClosureIsolation, ruleRespondOnce, ruleSemaphorePairing(scHTTP), ruleGoSites}
	register("C08", "", append(batch, ruleAMR)...)
	register("C07", "", ruleRespondOnce, ruleResultIndex, ruleSemaphorePairing(scHTTP), ruleGoSites)
	clean := ruleExecuteThenClean("queryHandler.map", "executorFn")
	register("C01", "", clean, rulePrepareResponse)
	register("C17", "", clean, rulePrepareResponse)
	scAll := scope{"module", []string{"pebbles.(*Gateway).Handler", "pebbles.NewGateway", "planner.(*CachedPlanner).Plan", "merger.(SanitizeNodeMergerFunc).Merge"}}
	register("C13", "", ruleMapRanges(scAll, 30), ruleReducers, ruleSelects, ruleCallers(func(c string) bool { return c == "time.Now" }), ruleGoSites)
	register("C14", "", rulePlanImmutable, ruleCacheKey, ruleLocks(plannerPkg+".CachedPlanner"))
	register("C13", "", ruleLocks(plannerPkg+".CachedPlanner", modPath+"/executor.CachedPointDataExtractor"))
	register("C18", "", ruleLocks(modPath+".subscriptionEntry"), ruleChannels, ruleConnWriters, ruleTeardown, ruleGoSites, ruleSubscriptionRegistry)
	register("C17", "", ruleNoClientWriteDeadline)
	register("C18", "", ruleNoClientWriteDeadline, ruleCloseReason, ruleEntryAdopted)
	register("C17", "", ruleEventPath, ruleChannels, ruleGoSites, ruleUpstreamForward)
	register("C06", "", ruleOperationType, rulePlanImmutable, ruleCacheKey, ruleCallers(nil))
	register("C02", "", ruleOperationType, ruleCacheKey)
	register("C01", "", ruleInsertionPointFresh, ruleCacheKey)
	register("C17", "", rulePlanImmutable)
	register("C12", "", ruleMultiplicity, ruleDedup, ruleCallers(nil))
	register("C06", "", ruleMultiplicity, ruleDedup)
	register("C11", "", ruleMultiplicity, ruleReducers, ruleGoSites)
	register("C13", "", ruleDedup, ruleCacheKey)
	register("C08", "", ruleLocks(plannerPkg+".CachedPlanner"))
	register("C19", "", ruleMultiplicity, ruleUploadNumbering, ruleUploadBytes)
	register("C12", "", ruleQueryHash)
	register("C02", "", ruleQueryHash) // steps that share a hash are de-duplicated into one: a client-selected field of the second is never asked for (seed C02-ZD)
	register("C01", "", ruleQueryHash)
	register("C11", "", ruleErrStructure) // a failed chunk reaches the caller through ExtendErrorList/FormatError (seed C11-ZB)
	register("C01", "", ruleOperationType, ruleForwardedVariables)
	register("C07", "", ruleChannels, ruleNilIntoDerefField)
	register("C08", "", ruleChannels)
	register("C09", "", ruleBodyClosed, ruleAnswerDecoder, ruleErrStructure)
	register("C13", "", ruleDownstreamErrorPath)
	register("C15", "", ruleASTWritesIn("introspection"), ruleEnumTables, detectors[0])
	for _, c := range []string{"C13", "C09", "C08", "C11"} {
		register(c, "", ruleFanoutOwner)
	}
	register("C16", "", rulePlanImmutable)
	register("C11", "", detectors[0])
	register("C01", "", ruleDedup)
	register("C05", "", ruleRoutingPairs, ruleNodeFieldSignature, ruleNodeLookupScope)
	register("C04", "", ruleNodeFieldSignature, ruleNodeLookupScope, ruleRoutingExemptions)
	register("C02", "", ruleNodeLookupScope, ruleRoutingTableWrites)
	register("C04", "", ruleRoutingTableWrites)
	register("C13", "", ruleRoutingTableWrites)
	register("C05", "", ruleMergerGuards, ruleMapRanges(scMerger, 5))
	register("C04", "", ruleRoutingPairs, ruleNodeFlag, ruleReducers, ruleCallers(func(c string) bool { return strings.Contains(c, "TypeURLMap") }))
	register("C10", "", ruleErrStructure, ruleDownstreamErrorPath)
	register("C09", "", ruleDownstreamErrorPath)
	register("C13", "", ruleErrStructure)
	register("C20", "", ruleErrStructure)
	register("C15", "", ruleIntrospectionQuery, ruleDecodedFieldsUsed, ruleKindGuardsReader)
	register("C16", "", ruleResolverSpec, ruleIntrospectionSources, r7(scope{"resolver", []string{"introspection.(*IntrospectionResolver).ResolveIntrospectionFields"}}), ruleMapRanges(scope{"resolver", []string{"introspection.(*IntrospectionResolver).ResolveIntrospectionFields"}}, 1))
	register("C19", "", ruleVariableWrites, ruleEncodings("upload"), ruleUploadParts, ruleMapRanges(scUpload, 1))
	register("C01", "", ruleEncodings("insertion"))
	register("C14", "", ruleKeyReadSet)
	register("C13", "", ruleKeyReadSet)
	register("C02", "", ruleVariableTraversals)
	register("C02", "", ruleASTWrites)
	register("C14", "", ruleASTWrites)
	register("C01", "", ruleASTWrites)
	register("C09", "", ruleCancelOwnership, ruleSemaphorePairing(scDownstream))
	register("C08", "", ruleCancelOwnership)
	register("C18", "", ruleCancelOwnership)
	register("C13", "", ruleStepListLoops)
	register("C01", "", ruleStepListLoops)
	register("C06", "", ruleFailFast)
	register("C09", "", ruleFailFast)
	register("XK", "debug: effect kinds", dumpKinds)
	register("C07", "", ruleWholeBodyDecode)
	register("C01", "", ruleHelperRegistration)
	register("C02", "", ruleHelperRegistration)
	register("C02", "", ruleStitchVariable)
	register("C12", "", ruleStitchVariable)
	register("C12", "", ruleForwardedVariables, ruleSingleLoopNesting)
	register("C06", "", ruleSingleLoopNesting)
	register("C02", "", ruleForwardedVariables)
	register("C19", "", ruleForwardedVariables)
	for _, c := range []string{"C13", "C14", "C01", "C16", "C10", "C08"} {
		register(c, "", ruleGatewayState)
	}
	for _, c := range []string{"C01", "C06", "C08", "C11", "C13", "C19"} {
		register(c, "", ruleGlobalState)
	}
	register("C13", "", rulePlanImmutable, ruleASTWrites)
	register("C16", "", ruleASTWrites)
	register("C07", "", ruleLocks(plannerPkg+".CachedPlanner", modPath+"/executor.CachedPointDataExtractor"))
	register("C16", "", ruleSliceReuse("pebbles.(*Gateway).Handler"), ruleRootDefinitionIdentity)
	register("C14", "", ruleSliceReuse("pebbles.(*Gateway).Handler"))
	register("C17", "", ruleDecodeTargetScope, ruleReturnedDataScrubbed)
	register("C18", "", ruleDecodeTargetScope)
	register("C01", "", ruleReturnedDataScrubbed)
	register("C15", "", ruleBuiltinLists)
	register("C05", "", ruleRootDefinitionIdentity)
	// round 6: rules that caught a change aimed at another property only
	register("C13", "", ruleCancelOwnership)                    // siblings cancelled on the first failure: the set of errors depends on timing
	register("C10", "", ruleGlobalState, ruleDecodeTargetScope) // pooled answers: a service's errors mixed with an earlier answer's
	register("C09", "", ruleDecodeTargetScope, ruleGlobalState) // a failed event delivered with the previous event's data
	register("C05", "", ruleASTWritesIn("merger"))              // a merge that writes into its inputs is not repeatable / order-independent
	register("C04", "", r6(scIntrospect, 5))                    // a swallowed introspection failure shifts schemas against their URLs
	register("C02", "", ruleMultiplicity)                       // a re-sent request goes out after its uploads were extracted
	register("C17", "", ruleExecutionRequestIdentity)
	register("C01", "", ruleExecutionRequestIdentity)
	register("C02", "", ruleExecutionRequestIdentity)
	register("C12", "", ruleNextRequestsSearched)
	register("C01", "", ruleNextRequestsSearched)
	register("C18", "", ruleUpstreamForward) // the end-of-stream signal (R12b.end) is what lets Listen and its goroutines finish
	register("C02", "", ruleStitchVariableReserved)
	// round 7
	register("C05", "", ruleIDExemptionBySignature)
	register("C06", "", ruleRoutingPairs, r6(scIntrospect, 5)) // a mutation sent to the wrong service never reaches its owner
	register("C09", "", ruleResultIndex)                       // a failed operation keeps its place in the batch
	register("C12", "", ruleOperationType)                     // the name of a child step is part of the de-duplication key
	// round 8
	register("C15", "", ruleSchemaPerURL) // schemas[n] is the reconstruction of the service behind urls[n], not of another one; how NewGateway and Merge pair schema and URL afterwards is routing (C04), not reconstruction
	register("C17", "", ruleGatewayState) // what stitches an event is built for that subscription, not kept on the gateway
	register("C16", "", ruleCallers(func(c string) bool { return strings.Contains(c, "ResolveIntrospectionFields") }), rulePlanHandedToResolver)
	register("C05", "", ruleMergeExemptions)
	register("C02", "", ruleRouteLookupExemptions)
	register("C01", "", ruleRouteLookupExemptions)
	register("C12", "", ruleDedupConditions)
	// R3k.memo is registered where an answer remembered under too small a key breaks a clause of
	// the property, and only for the memos on that property's path (fifth audit: the module-wide
	// registration made C14 and C16 speak about the handler's queryers):
	//   C01/C02 — a stale verdict or insertion point on the request path changes the data, or drops a sub-request;
	//   C08     — an answer remembered for one operation of a batch is handed to another ("as if sent alone");
	//   C13     — what a repeated operation gets depends on what was asked before it;
	//   C14     — the plan cache itself: the memo in the caching planner is the property's subject;
	//   C17     — an event is stitched as a query is (C01), on the per-event path.
	// C16 (introspection answers) has no clause about remembered answers and no memo on its path: dropped.
	reqMemo := ruleMemoKeyIn("on the request path", "pebbles.(*Gateway).Handler")
	for _, c := range []string{"C01", "C02", "C08", "C13"} {
		register(c, "", reqMemo)
	}
	register("C14", "", ruleMemoKeyIn("in the caching planner", "planner.(*CachedPlanner).Plan"))
	register("C17", "", ruleMemoKeyIn("on the per-event path", scSubEvent.roots...))
	register("C13", "", ruleArrivalOrder)
	// round 9
	register("C04", "", ruleRoutedFields)
	for _, c := range []string{"C17", "C01", "C02"} {
		register(c, "", ruleLoopAlias, ruleLastWinsMerge)
	}
	for _, c := range []string{"C09", "C07", "C10"} {
		register(c, "", ruleAssertedErrorNil)
	}
	// round 10
	register("C01", "", ruleCountCheck) // a short answer must be refused, or a step's fields vanish from the data without an error
	register("C09", "", ruleRequestContextSent)
	register("C07", "", ruleRequestContextSent)
	register("C05", "", ruleMergeGlobalState)
	register("C04", "", ruleMergeGlobalState)
	register("X6", "debug: R6 over whole module", ruleErr(errScope{label: "all", pkgs: []string{"pebbles", "common", "executor", "format", "gqlerrors", "introspection", "merger", "planner", "queryer", "requests"}}))
}
