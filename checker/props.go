package main

const amrLemma = " The fan-out helper's protocol conformance (R1) is re-checked as a lemma because termination and exactly-once mapping of every AsyncMapReduce call site rest on it."

func init() {
	register("C07", "panic-freedom obligations (R7) over every function reachable from the HTTP handler."+amrLemma,
		rulePanic(panicScope{label: "http", roots: []string{"pebbles.(*Gateway).queryHandler"}}), ruleAMR)
	register("C09", "R7 over downstream response handling."+amrLemma,
		rulePanic(panicScope{label: "downstream", roots: []string{"executor.(ParallelExecutor).Execute", "queryer.(*MultiOpQueryer).Query"}}), ruleAMR)
	register("C05", "R7 over the merger.",
		rulePanic(panicScope{label: "merger", roots: []string{"merger.(ExtendMergerFunc).Merge", "merger.(SanitizeNodeMergerFunc).Merge"}}))
	register("C17", "R7 over the per-event path.",
		rulePanic(panicScope{label: "sub-event", roots: []string{"pebbles.(*subscriptionEntry).Listen", "pebbles.(*Gateway).newSubscriptionEntry"}}))
	register("C18", "R7 over the websocket handler and teardown.",
		rulePanic(panicScope{label: "sub-teardown", roots: []string{"pebbles.(*Gateway).subscriptionHandler", "pebbles.(*subscriptionEntry).Listen", "pebbles.(*subscriptionEntry).Close", "queryer.(*MultiOpQueryer).Subscribe"}}))
	register("C19", "R7 over upload parsing and re-encoding.",
		rulePanic(panicScope{label: "upload", roots: []string{"requests.Parse", "queryer.(*MultiOpQueryer).fetchFile"}}))
	register("C15", "R7 over schema reconstruction.",
		rulePanic(panicScope{label: "introspect", roots: []string{"introspection.introspectRemoteSchema"}}))
}
