package main

import (
	"go/constant"
	"go/token"
	"go/types"
	"sort"
	"strings"

	"golang.org/x/tools/go/ssa"
)

// ruleIDExemptionBySignature (R13o.id): the overlap analysis of shared types sets the relay id
// aside — `id: ID!` without arguments. A field that is merely CALLED id (`id: String!`,
// `id: [ID!]`, `id(x: Int): ID!`) is an ordinary field whose declarations have to agree.
//
// The rule does not trust a predicate by its name. It finds every place, in the functions that
// take part in merging the fields of a shared type, where the NAME of a field is tested for
// being "id" — a comparison with the constant, membership in a list or table of names that
// holds it, a call of a function of the module that does either — and asks what the test is
// part of:
//
//   - inside a function that only answers (one boolean result, no effects), it computes what
//     an answer of true implies. If that is the whole signature — the name AND no arguments AND
//     the type ID, non-null, all about the same field — the function is the id predicate, under
//     whatever name, as a method, a helper or a closure, and may be used freely. If not, the
//     function is a name test itself and every call of it is judged in turn.
//   - in any other function the test must open (or stand in) a chain of branches that all fail
//     to the same place and establish the whole signature before anything else happens.
func ruleIDExemptionBySignature(r *Run) {
	const rule = "R13o.id"
	root := r.Anchor(rule, "merger.mergeCustomObjectFields")
	if root == nil {
		return
	}
	a := &idAnalysis{r: r, memo: map[string]idFacts{}, busy: map[string]bool{}}
	scope := r.P.CG.Reachable([]*ssa.Function{root}, nil)
	var fns []*ssa.Function
	for g := range scope {
		if inModule(g) && g.Blocks != nil {
			fns = append(fns, g)
		}
	}
	sort.Slice(fns, func(i, j int) bool { return fnName(fns[i]) < fnName(fns[j]) })

	type mention struct {
		in   *ssa.Function
		val  ssa.Value // the boolean that is true when the name is (among) the tested one(s)
		subj ssa.Value // the field (or the name handed in as a string parameter)
		what string
		pos  token.Pos
	}
	var work []mention
	for _, g := range fns {
		for _, ins := range allInstrs(g) {
			v, ok := ins.(ssa.Value)
			if !ok {
				continue
			}
			if subj, what := a.nameTest(v); subj != nil {
				work = append(work, mention{g, v, subj, what, ins.Pos()})
			}
		}
	}
	const bad = "the merge of a shared type sets a field aside because it is CALLED id, not because it is the relay id (`id: ID!`, no arguments): `id: String!` in one service and `id: Int!` in another, or an `id: [ID!]` that only one side declares, no longer count as an overlap and are merged silently, the first listed service winning"
	n := 0
	idPreds := map[*ssa.Function]bool{}
	namePreds := map[*ssa.Function]bool{}
	done := map[ssa.Value]bool{}
	for len(work) > 0 {
		m := work[0]
		work = work[1:]
		if done[m.val] {
			continue
		}
		done[m.val] = true
		g := m.in
		if a.onlyAnswers(g, map[*ssa.Function]bool{}) {
			if idPreds[g] || namePreds[g] {
				continue
			}
			if whole, _ := a.wholeSignature(a.answers(g, true, nil, 0)); whole {
				idPreds[g] = true
				continue
			}
			// a name test of its own: every use of it is one
			namePreds[g] = true
			uses := 0
			enumerable := len(r.P.CG.In[g]) > 0
			for _, e := range r.P.CG.In[g] {
				cv, isVal := e.Site.(ssa.Value)
				if (e.Kind != "static" && e.Kind != "dynamic") || !isVal || e.Site.Common().IsInvoke() {
					enumerable = false // handed to a library function, or called through an interface
					continue
				}
				if !scope[e.Caller] {
					continue // a use outside the merge of shared types is not this rule's matter
				}
				uses++
				work = append(work, mention{e.Caller, cv, a.subjectAt(e.Site.Common(), g, m.subj), "a call of " + fnName(g) + " (which tests the name and not the whole signature)", e.Site.Pos()})
			}
			if !enumerable || uses == 0 {
				n++
				r.Bad(rule, fnName(g), "field singled out by the name id", r.P.pos(m.pos),
					"a function that answers by the name alone ("+m.what+") is used where the rule cannot follow it (a function value, a callback): "+bad)
			}
			continue
		}
		// not a function that only answers: the test has to be a link of a chain of branches
		// that establishes the whole signature
		n++
		ok, why := a.chainEstablishes(g, m.val)
		r.Check(ok, rule, fnName(g), "field singled out by the name id", r.P.pos(m.pos),
			"the test of the name is one link of a chain of branches that fail to the same place and establish the whole signature (name, no arguments, type ID!) of the same field before anything is done",
			m.what+" decides on its own ("+why+"): "+bad)
	}
	// the uses of the id predicate(s)
	for _, g := range fns {
		for _, ins := range allInstrs(g) {
			if c, ok := ins.(*ssa.Call); ok && c.Call.StaticCallee() != nil && idPreds[c.Call.StaticCallee()] && !idPreds[g] {
				n++
			}
			if mc, ok := ins.(*ssa.MakeClosure); ok {
				if f, _ := mc.Fn.(*ssa.Function); f != nil && idPreds[f] {
					n++
				}
			}
		}
	}
	var names []string
	for g := range idPreds {
		names = append(names, fnName(g))
	}
	sort.Strings(names)
	if len(names) > 0 {
		r.OKTrivial(rule, "", "id predicates", "-", "answer true only for a field called id, without arguments, of type ID! (computed from their bodies): "+strings.Join(names, ", "))
	}
	r.AtLeast(rule, "id exemptions in the merge of shared types", n, 1)
}

type idFact struct {
	kind string    // name, args, tname, nonnull
	subj ssa.Value // the field definition, or a parameter (a name, a type) of the function summarised
}

// idFacts: what is known to hold; nil stands for "cannot happen" (every fact holds vacuously).
type idFacts map[idFact]bool

type idAnalysis struct {
	r    *Run
	memo map[string]idFacts
	busy map[string]bool
}

func (a *idAnalysis) isFieldDef(t types.Type) bool {
	return strings.HasSuffix(namedOf(derefType(t)), "gqlparser/v2/ast.FieldDefinition") || strings.HasSuffix(namedOf(t), "gqlparser/v2/ast.FieldDefinition")
}

func (a *idAnalysis) isASTType(t types.Type) bool {
	return strings.HasSuffix(namedOf(derefType(t)), "gqlparser/v2/ast.Type") || strings.HasSuffix(namedOf(t), "gqlparser/v2/ast.Type")
}

// fieldLoad: v is the field `field` of a value of the named struct: the owner.
func fieldLoadOf(v ssa.Value, field string, owner func(types.Type) bool) ssa.Value {
	switch x := viaCell(unwrap(v)).(type) {
	case *ssa.UnOp:
		if x.Op == token.MUL {
			if fa, ok := x.X.(*ssa.FieldAddr); ok && fieldOf(fa) != nil && fieldOf(fa).Name() == field && owner(fa.X.Type()) {
				return viaCell(unwrap(fa.X))
			}
		}
	case *ssa.Field:
		if f := fieldOfVal(x); f != nil && f.Name() == field && owner(x.X.Type()) {
			return viaCell(unwrap(x.X))
		}
	}
	return nil
}

// canonName: the field whose name v is, or the string parameter that carries a name.
func (a *idAnalysis) canonName(v ssa.Value) ssa.Value {
	if x := fieldLoadOf(v, "Name", a.isFieldDef); x != nil {
		return x
	}
	if p, ok := viaCell(unwrap(v)).(*ssa.Parameter); ok {
		if bt, ok := p.Type().Underlying().(*types.Basic); ok && bt.Info()&types.IsString != 0 {
			return p
		}
	}
	return nil
}

// canonType: the field whose type v is, or the parameter that carries a type.
func (a *idAnalysis) canonType(v ssa.Value) ssa.Value {
	if x := fieldLoadOf(v, "Type", a.isFieldDef); x != nil {
		return x
	}
	if p, ok := viaCell(unwrap(v)).(*ssa.Parameter); ok && a.isASTType(p.Type()) {
		return p
	}
	return nil
}

func constStrVal(v ssa.Value, env map[*ssa.Parameter]ssa.Value) (string, bool) {
	if p, ok := v.(*ssa.Parameter); ok && env != nil && env[p] != nil {
		v = env[p]
	}
	if k, ok := v.(*ssa.Const); ok && k.Value != nil && k.Value.Kind() == constant.String {
		return constant.StringVal(k.Value), true
	}
	return "", false
}

// constStringsIn: the string constants held by the list, array or table v — a literal built
// in the function, or a package-level variable initialised with one.
func (a *idAnalysis) constStringsIn(v ssa.Value, depth int) map[string]bool {
	out := map[string]bool{}
	if depth > 4 {
		return out
	}
	add := func(m map[string]bool) {
		for k := range m {
			out[k] = true
		}
	}
	v = viaCell(unwrap(v))
	switch x := v.(type) {
	case *ssa.Slice:
		add(a.constStringsIn(x.X, depth+1))
	case *ssa.Alloc:
		if x.Referrers() == nil {
			break
		}
		for _, ref := range *x.Referrers() {
			switch y := ref.(type) {
			case *ssa.IndexAddr:
				if y.Referrers() == nil {
					continue
				}
				for _, r2 := range *y.Referrers() {
					if st, ok := r2.(*ssa.Store); ok && st.Addr == ssa.Value(y) {
						if s, ok := constStrVal(st.Val, nil); ok {
							out[s] = true
						}
					}
				}
			case *ssa.Store:
				if y.Addr == ssa.Value(x) {
					add(a.constStringsIn(y.Val, depth+1))
				}
			}
		}
	case *ssa.MakeMap:
		if x.Referrers() == nil {
			break
		}
		for _, ref := range *x.Referrers() {
			if mu, ok := ref.(*ssa.MapUpdate); ok {
				if s, ok := constStrVal(mu.Key, nil); ok {
					out[s] = true
				}
			}
		}
	case *ssa.UnOp:
		if x.Op != token.MUL {
			break
		}
		if g, ok := x.X.(*ssa.Global); ok {
			for _, fn := range a.r.P.Funcs {
				for _, ins := range allInstrs(fn) {
					if st, ok := ins.(*ssa.Store); ok && st.Addr == ssa.Value(g) {
						add(a.constStringsIn(st.Val, depth+1))
					}
				}
			}
		}
	case *ssa.Phi:
		for _, e := range x.Edges {
			add(a.constStringsIn(e, depth+1))
		}
	case *ssa.Call:
		if b, ok := x.Call.Value.(*ssa.Builtin); ok && b.Name() == "append" {
			for _, arg := range x.Call.Args {
				add(a.constStringsIn(arg, depth+1))
			}
		}
	}
	return out
}

// nameTest: v is a boolean that tests the name of a field for being "id": the field (or the
// parameter carrying the name) and a description; nil otherwise.
func (a *idAnalysis) nameTest(v ssa.Value) (ssa.Value, string) {
	switch x := v.(type) {
	case *ssa.BinOp:
		if x.Op != token.EQL && x.Op != token.NEQ {
			return nil, ""
		}
		for _, p := range [][2]ssa.Value{{x.X, x.Y}, {x.Y, x.X}} {
			if s, ok := constStrVal(p[1], nil); ok && s == "id" {
				if subj := a.canonName(p[0]); subj != nil {
					return subj, "a comparison of the field's name with \"id\""
				}
			}
		}
	case *ssa.Lookup:
		if subj := a.canonName(x.Index); subj != nil && a.constStringsIn(x.X, 0)["id"] {
			return subj, "a table of names that holds \"id\""
		}
	case *ssa.Extract:
		if lk, ok := x.Tuple.(*ssa.Lookup); ok && x.Index == 1 {
			if subj := a.canonName(lk.Index); subj != nil && a.constStringsIn(lk.X, 0)["id"] {
				return subj, "a table of names that holds \"id\""
			}
		}
	case *ssa.Call:
		if sc := x.Call.StaticCallee(); sc != nil && inModule(sc) {
			return nil, "" // judged by its body
		}
		var subj ssa.Value
		with := ""
		for _, arg := range x.Call.Args {
			if s := a.canonName(arg); s != nil {
				subj = s
				continue
			}
			if isCollection(arg.Type()) && a.constStringsIn(arg, 0)["id"] {
				with = "a list of names that holds \"id\""
			}
			if s, ok := constStrVal(arg, nil); ok && s == "id" {
				with = "\"id\""
			}
		}
		if subj != nil && with != "" {
			if bt, ok := x.Type().Underlying().(*types.Basic); ok && bt.Kind() == types.Bool {
				return subj, "a call of " + calleeDesc(&x.Call) + " with the field's name and " + with
			}
		}
	}
	return nil, ""
}

// onlyAnswers: g has one boolean result and does nothing but compute it.
func (a *idAnalysis) onlyAnswers(g *ssa.Function, seen map[*ssa.Function]bool) bool {
	res := g.Signature.Results()
	if res.Len() != 1 {
		return false
	}
	if bt, ok := res.At(0).Type().Underlying().(*types.Basic); !ok || bt.Kind() != types.Bool {
		return false
	}
	return a.noEffects(g, seen)
}

func (a *idAnalysis) noEffects(g *ssa.Function, seen map[*ssa.Function]bool) bool {
	if g == nil || g.Blocks == nil {
		return false
	}
	if seen[g] {
		return true
	}
	seen[g] = true
	for _, ins := range allInstrs(g) {
		switch x := ins.(type) {
		case *ssa.Store:
			if al, ok := x.Addr.(*ssa.Alloc); !ok || al.Parent() != g {
				if ia, ok := x.Addr.(*ssa.IndexAddr); ok {
					if al, ok := ia.X.(*ssa.Alloc); ok && al.Parent() == g {
						continue
					}
				}
				return false
			}
		case *ssa.MapUpdate, *ssa.Send, *ssa.Go, *ssa.Defer, *ssa.Select, *ssa.Panic:
			return false
		case *ssa.Call:
			if b, ok := x.Call.Value.(*ssa.Builtin); ok {
				switch b.Name() {
				case "len", "cap":
					continue
				}
				return false
			}
			if sc := x.Call.StaticCallee(); sc != nil && inModule(sc) {
				if !a.noEffects(sc, seen) {
					return false
				}
				continue
			}
			if !isPureCall(&x.Call) {
				return false
			}
		}
	}
	return true
}

func (f idFacts) union(g idFacts) idFacts {
	if f == nil || g == nil {
		return nil
	}
	out := idFacts{}
	for k := range f {
		out[k] = true
	}
	for k := range g {
		out[k] = true
	}
	return out
}

func intersectFacts(list []idFacts) idFacts {
	var out idFacts
	first := true
	for _, f := range list {
		if f == nil {
			continue // cannot happen: no constraint
		}
		if first {
			out = idFacts{}
			for k := range f {
				out[k] = true
			}
			first = false
			continue
		}
		for k := range out {
			if !f[k] {
				delete(out, k)
			}
		}
	}
	if first {
		return nil
	}
	return out
}

// when: what holds if the boolean v has the value pol.
func (a *idAnalysis) when(v ssa.Value, pol bool, env map[*ssa.Parameter]ssa.Value, depth int) idFacts {
	if depth > 12 {
		return idFacts{}
	}
	switch x := v.(type) {
	case *ssa.Const:
		if x.Value != nil && x.Value.Kind() == constant.Bool && constant.BoolVal(x.Value) != pol {
			return nil
		}
		return idFacts{}
	case *ssa.UnOp:
		if x.Op == token.NOT {
			return a.when(x.X, !pol, env, depth+1)
		}
		if x.Op == token.MUL && pol {
			if t := fieldLoadOf(x, "NonNull", a.isASTType); t != nil {
				if subj := a.canonType(t); subj != nil {
					return idFacts{{"nonnull", subj}: true}
				}
			}
		}
	case *ssa.BinOp:
		if x.Op != token.EQL && x.Op != token.NEQ {
			return idFacts{}
		}
		if (x.Op == token.EQL) != pol {
			return idFacts{}
		}
		for _, p := range [][2]ssa.Value{{x.X, x.Y}, {x.Y, x.X}} {
			if s, ok := constStrVal(p[1], env); ok {
				if s == "id" {
					if subj := a.canonName(p[0]); subj != nil {
						return idFacts{{"name", subj}: true}
					}
				}
				if s == "ID" {
					if c, ok := p[0].(*ssa.Call); ok && !c.Call.IsInvoke() && len(c.Call.Args) == 1 && strings.HasSuffix(calleeName(&c.Call), "gqlparser/v2/ast.Type).Name") {
						if subj := a.canonType(c.Call.Args[0]); subj != nil {
							return idFacts{{"tname", subj}: true}
						}
					}
				}
				// the printed form says everything at once: `t.String() == "ID!"` is the named type
				// ID, non-null (and not a list of it)
				if s == "ID!" {
					if c, ok := p[0].(*ssa.Call); ok && !c.Call.IsInvoke() && len(c.Call.Args) == 1 && strings.HasSuffix(calleeName(&c.Call), "gqlparser/v2/ast.Type).String") {
						if subj := a.canonType(c.Call.Args[0]); subj != nil {
							return idFacts{{"tname", subj}: true, {"nonnull", subj}: true}
						}
					}
				}
			}
			if isIntConst(p[1], 0) {
				if c, ok := p[0].(*ssa.Call); ok {
					if b, ok := c.Call.Value.(*ssa.Builtin); ok && b.Name() == "len" {
						if subj := fieldLoadOf(c.Call.Args[0], "Arguments", a.isFieldDef); subj != nil {
							return idFacts{{"args", subj}: true}
						}
					}
				}
			}
		}
	case *ssa.Phi:
		var alts []idFacts
		for i, e := range x.Edges {
			f := a.when(e, pol, env, depth+1)
			if f == nil {
				continue
			}
			alts = append(alts, f.union(a.edgeFacts(x.Block().Preds[i], x.Block(), env, depth+1)))
		}
		if len(alts) == 0 {
			return nil
		}
		return intersectFacts(alts)
	case *ssa.Call:
		sc := x.Call.StaticCallee()
		if sc == nil {
			if mc, ok := x.Call.Value.(*ssa.MakeClosure); ok {
				sc, _ = mc.Fn.(*ssa.Function)
			} else if ld := viaCell(x.Call.Value); ld != x.Call.Value {
				if mc, ok := ld.(*ssa.MakeClosure); ok {
					sc, _ = mc.Fn.(*ssa.Function)
				}
			}
		}
		if sc == nil || !inModule(sc) || sc.Blocks == nil || x.Call.IsInvoke() {
			return idFacts{}
		}
		inner := map[*ssa.Parameter]ssa.Value{}
		for i, p := range sc.Params {
			if i < len(x.Call.Args) {
				arg := x.Call.Args[i]
				if ap, ok := arg.(*ssa.Parameter); ok && env != nil && env[ap] != nil {
					arg = env[ap]
				}
				if _, isConst := arg.(*ssa.Const); isConst {
					inner[p] = arg
				}
			}
		}
		f := a.answers(sc, pol, inner, depth+1)
		if f == nil {
			return nil
		}
		out := idFacts{}
		for k := range f {
			if s := a.translate(k, sc, x.Call.Args); s != nil {
				out[idFact{k.kind, s}] = true
			}
		}
		return out
	}
	return idFacts{}
}

// translate: the subject of a fact about a parameter of sc, seen from the call.
func (a *idAnalysis) translate(k idFact, sc *ssa.Function, args []ssa.Value) ssa.Value {
	p, ok := k.subj.(*ssa.Parameter)
	if !ok || p.Parent() != sc {
		return nil
	}
	for i, q := range sc.Params {
		if q != p || i >= len(args) {
			continue
		}
		switch {
		case a.isFieldDef(p.Type()):
			return viaCell(unwrap(args[i]))
		case a.isASTType(p.Type()):
			return a.canonType(args[i])
		default:
			return a.canonName(args[i])
		}
	}
	return nil
}

// subjectAt: the subject of a name test made by callee g about subj, seen from a call of g.
func (a *idAnalysis) subjectAt(c *ssa.CallCommon, g *ssa.Function, subj ssa.Value) ssa.Value {
	if s := a.translate(idFact{"name", subj}, g, c.Args); s != nil {
		return s
	}
	return subj
}

// edgeFacts: what holds when control goes from block p to block to.
func (a *idAnalysis) edgeFacts(p, to *ssa.BasicBlock, env map[*ssa.Parameter]ssa.Value, depth int) idFacts {
	f := a.pathFacts(p, env, depth)
	if iff, ok := p.Instrs[len(p.Instrs)-1].(*ssa.If); ok && p.Succs[0] != p.Succs[1] {
		if p.Succs[0] == to {
			f = f.union(a.when(iff.Cond, true, env, depth+1))
		} else if p.Succs[1] == to {
			f = f.union(a.when(iff.Cond, false, env, depth+1))
		}
	}
	return f
}

// pathFacts: what holds whenever block b is reached (the branches that dominate it).
func (a *idAnalysis) pathFacts(b *ssa.BasicBlock, env map[*ssa.Parameter]ssa.Value, depth int) idFacts {
	out := idFacts{}
	if depth > 12 {
		return out
	}
	for d := b.Idom(); d != nil; d = d.Idom() {
		iff, ok := d.Instrs[len(d.Instrs)-1].(*ssa.If)
		if !ok || d.Succs[0] == d.Succs[1] {
			continue
		}
		for k, s := range d.Succs {
			if len(s.Preds) == 1 && (s == b || s.Dominates(b)) {
				out = out.union(a.when(iff.Cond, k == 0, env, depth+1))
				if out == nil {
					return nil
				}
			}
		}
	}
	return out
}

// answers: what holds whenever g returns pol.
func (a *idAnalysis) answers(g *ssa.Function, pol bool, env map[*ssa.Parameter]ssa.Value, depth int) idFacts {
	key := fnName(g) + "|" + g.String()
	if pol {
		key += "|T"
	}
	var ek []string
	for p, v := range env {
		ek = append(ek, p.Name()+"="+v.String())
	}
	sort.Strings(ek)
	key += "|" + strings.Join(ek, ",")
	if f, ok := a.memo[key]; ok {
		return f
	}
	if a.busy[key] || depth > 8 {
		return idFacts{}
	}
	a.busy[key] = true
	defer delete(a.busy, key)
	var alts []idFacts
	for _, ret := range returnsOf(g) {
		vals := retVals(ret)
		if len(vals) != 1 {
			return idFacts{}
		}
		f := a.when(vals[0], pol, env, depth+1)
		if f == nil {
			continue
		}
		f = f.union(a.pathFacts(ret.Block(), env, depth+1))
		if f == nil {
			continue
		}
		alts = append(alts, f)
	}
	var out idFacts
	if len(alts) > 0 {
		out = intersectFacts(alts)
	}
	a.memo[key] = out
	return out
}

// wholeSignature: the facts hold the name, the absence of arguments and the type ID! of one field.
func (a *idAnalysis) wholeSignature(f idFacts) (bool, string) {
	if f == nil {
		return false, "it never holds"
	}
	best := []string{"the name", "no arguments", "the type's name ID", "non-null"}
	for k := range f {
		if k.kind != "name" {
			continue
		}
		var missing []string
		for _, w := range [][2]string{{"args", "no arguments"}, {"tname", "the type's name ID"}, {"nonnull", "non-null"}} {
			if !f[idFact{w[0], k.subj}] {
				missing = append(missing, w[1])
			}
		}
		if len(missing) == 0 {
			return true, ""
		}
		if len(missing) < len(best) {
			best = missing
		}
	}
	return false, "not established for the field: " + strings.Join(best, ", ")
}

// chainEstablishes: in g, which does more than answer, the name test m is the condition of a
// branch; from the side on which the name is id, a chain of blocks that do nothing but test,
// each failing to the place the name test fails to, establishes the whole signature.
func (a *idAnalysis) chainEstablishes(g *ssa.Function, m ssa.Value) (bool, string) {
	var d *ssa.If
	pol := true
	var find func(v ssa.Value, p bool, depth int)
	find = func(v ssa.Value, p bool, depth int) {
		if v.Referrers() == nil || depth > 3 {
			return
		}
		for _, ref := range *v.Referrers() {
			switch x := ref.(type) {
			case *ssa.If:
				d, pol = x, p
			case *ssa.UnOp:
				if x.Op == token.NOT {
					find(x, !p, depth+1)
				}
			}
		}
	}
	find(m, true, 0)
	if d == nil {
		return false, "its value is not the condition of a branch"
	}
	// the sense of m itself: true means "the name is id" for ==, a table, a name predicate
	if bo, ok := m.(*ssa.BinOp); ok && bo.Op == token.NEQ {
		pol = !pol
	}
	blk := d.Block()
	on, off := blk.Succs[0], blk.Succs[1]
	if !pol {
		on, off = off, on
	}
	facts := a.pathFacts(blk, nil, 0).union(a.when(d.Cond, on == blk.Succs[0], nil, 0))
	cur := on
	for steps := 0; steps < 8; steps++ {
		if whole, _ := a.wholeSignature(facts); whole {
			return true, ""
		}
		if len(cur.Preds) != 1 || cur == off {
			break
		}
		pure := true
		for _, ins := range cur.Instrs {
			switch x := ins.(type) {
			case *ssa.Store, *ssa.MapUpdate, *ssa.Send, *ssa.Go, *ssa.Defer, *ssa.Return, *ssa.Panic:
				pure = false
			case *ssa.Call:
				if b, ok := x.Call.Value.(*ssa.Builtin); ok && (b.Name() == "len" || b.Name() == "cap") {
					continue
				}
				if sc := x.Call.StaticCallee(); sc != nil && inModule(sc) && a.noEffects(sc, map[*ssa.Function]bool{}) {
					continue
				}
				if !isPureCall(&x.Call) {
					pure = false
				}
			}
		}
		next, ok := cur.Instrs[len(cur.Instrs)-1].(*ssa.If)
		if !pure || !ok {
			break
		}
		switch off {
		case cur.Succs[1]:
			facts = facts.union(a.when(next.Cond, true, nil, 0))
			cur = cur.Succs[0]
		case cur.Succs[0]:
			facts = facts.union(a.when(next.Cond, false, nil, 0))
			cur = cur.Succs[1]
		default:
			_, why := a.wholeSignature(facts)
			return false, why
		}
	}
	whole, why := a.wholeSignature(facts)
	return whole, why
}
