package main

// R2 — LOCK (DESIGN §3 R2): must-held lockset over each function's CFG.
//  L1  guarded-by: accesses to the listed fields happen with the owning mutex held
//      (read mode suffices for reads); fields of the guarded structs that are not listed as
//      guarded or immutable are reported when touched on the request path.
//      The lockset a function starts with is the meet of the locksets at all its call sites
//      (helpers documented "caller holds the lock", closures handed to a locking wrapper,
//      closures called or deferred in place). A guarded map is followed after the load: handing
//      it to a callee that writes it (or has no body) needs the write lock; returning, storing,
//      capturing it or handing it to a goroutine lets it escape the critical section. Copying
//      the whole struct by value shares the maps under a different mutex. Fields listed as
//      immutable-after-construction are checked not to be stored into an object the storing
//      function did not allocate (immutableWriters lists the builder exceptions).
//  L2  pairing: Unlock/RUnlock only where the lock is must-held in the matching mode;
//      every lock taken is released in the matching mode on every path (directly, by a deferred
//      unlock, or by a deferred closure that unlocks); a deferred unlock must find the lock
//      held in its mode at every exit it runs on (no double unlock);
//      TryLock counts as held only on the true branch of its result
//  L3  no re-acquisition: neither directly nor through a (static) callee is a mutex taken that
//      the goroutine already holds (sync mutexes are not reentrant)

import (
	"fmt"
	"go/token"
	"go/types"
	"sort"
	"strings"

	"golang.org/x/tools/go/ssa"
)

type lockID struct {
	base  ssa.Value // the struct pointer/value owning the mutex
	field int       // index of the mutex field (embedded)
}

type lockState map[lockID]string // "R" | "W"

func (s lockState) clone() lockState {
	o := lockState{}
	for k, v := range s {
		o[k] = v
	}
	return o
}

// meet: a lock held in different modes on two joining paths is held, but in no known mode
// ("M"): enough for a read of a guarded field, not enough to justify either Unlock or RUnlock
// (fourth audit, a5: `meet(W,R)="R"` used to justify a trailing RUnlock after an upgrade).
func meet(a, b lockState) lockState {
	o := lockState{}
	for k, v := range a {
		if w, ok := b[k]; ok {
			if v == w {
				o[k] = v
			} else {
				o[k] = "M"
			}
		}
	}
	return o
}

func equalState(a, b lockState) bool {
	if len(a) != len(b) {
		return false
	}
	for k, v := range a {
		if b[k] != v {
			return false
		}
	}
	return true
}

type lockOp struct {
	id   lockID
	kind string // Lock RLock Unlock RUnlock TryLock
}

// lockOpOf recognises sync mutex operations whose receiver is &base.mutexField.
func lockOpOf(ins ssa.Instruction) (lockOp, bool) {
	ci, ok := ins.(ssa.CallInstruction)
	if !ok {
		return lockOp{}, false
	}
	c := ci.Common()
	n := calleeName(c)
	var kind string
	switch n {
	case "(*sync.RWMutex).Lock", "(*sync.Mutex).Lock":
		kind = "Lock"
	case "(*sync.RWMutex).RLock":
		kind = "RLock"
	case "(*sync.RWMutex).Unlock", "(*sync.Mutex).Unlock":
		kind = "Unlock"
	case "(*sync.RWMutex).RUnlock":
		kind = "RUnlock"
	case "(*sync.Mutex).TryLock", "(*sync.RWMutex).TryLock":
		kind = "TryLock"
	case "(*sync.RWMutex).TryRLock":
		kind = "TryRLock"
	default:
		return lockOp{}, false
	}
	if len(c.Args) == 0 {
		return lockOp{}, false
	}
	fa, ok := c.Args[0].(*ssa.FieldAddr)
	if !ok {
		return lockOp{kind: kind, id: lockID{base: c.Args[0], field: -1}}, true
	}
	return lockOp{kind: kind, id: lockID{base: canonBase(fa.X), field: fa.Field}}, true
}

// canonBase maps different loads of the same pointer cell to one representative.
func canonBase(v ssa.Value) ssa.Value {
	if ld, ok := v.(*ssa.UnOp); ok && ld.Op == token.MUL {
		switch ld.X.(type) {
		case *ssa.FreeVar, *ssa.Alloc:
			return ld.X
		}
	}
	return v
}

// paramBase: the representative (in canonBase's sense) of parameter i inside fn — the
// parameter itself, or the cell it is spilled to when a closure captures it.
func paramBase(fn *ssa.Function, i int) ssa.Value {
	if i < 0 || i >= len(fn.Params) {
		return nil
	}
	p := fn.Params[i]
	if p.Referrers() != nil {
		for _, ref := range *p.Referrers() {
			if st, ok := ref.(*ssa.Store); ok && st.Val == ssa.Value(p) {
				if al, isAl := st.Addr.(*ssa.Alloc); isAl {
					return al
				}
			}
		}
	}
	return p
}

// paramIndexOfBase is the inverse of paramBase; -1 when base is not a parameter of fn.
func paramIndexOfBase(fn *ssa.Function, base ssa.Value) int {
	for i := range fn.Params {
		if paramBase(fn, i) == base || ssa.Value(fn.Params[i]) == base {
			return i
		}
	}
	return -1
}

func unlockMode(kind string) string {
	if kind == "RUnlock" {
		return "R"
	}
	return "W"
}

// closureReleases: the unlock operations a `defer func(){ … }()` performs on every path
// through the closure, expressed in the terms of the function that registers the defer
// (captured variables are translated through the closure's bindings).
func closureReleases(d *ssa.Defer) []lockOp {
	mc, ok := d.Call.Value.(*ssa.MakeClosure)
	if !ok {
		return nil
	}
	g, ok := mc.Fn.(*ssa.Function)
	if !ok || len(g.Blocks) == 0 {
		return nil
	}
	var out []lockOp
	seen := map[lockOp]bool{}
	for _, ins := range allInstrs(g) {
		op, ok := lockOpOf(ins)
		if !ok || (op.kind != "Unlock" && op.kind != "RUnlock") {
			continue
		}
		if _, isCall := ins.(*ssa.Call); !isCall {
			continue
		}
		fv, isFV := op.id.base.(*ssa.FreeVar)
		if !isFV {
			continue
		}
		idx := -1
		for j, f := range g.FreeVars {
			if f == fv {
				idx = j
			}
		}
		if idx < 0 || idx >= len(mc.Bindings) {
			continue
		}
		want := op
		all, _ := mustPass(g.Blocks[0], 0, func(i ssa.Instruction) bool {
			o2, ok := lockOpOf(i)
			_, isCall := i.(*ssa.Call)
			return ok && isCall && o2 == want
		})
		if !all {
			continue
		}
		t := lockOp{kind: op.kind, id: lockID{base: mc.Bindings[idx], field: op.id.field}}
		if !seen[t] {
			seen[t] = true
			out = append(out, t)
		}
	}
	return out
}

// deferredUnlocks: the releases a defer statement registers (a direct `defer mu.Unlock()` or
// a deferred closure that unlocks on all its paths).
func deferredUnlocks(ins ssa.Instruction) []lockOp {
	d, ok := ins.(*ssa.Defer)
	if !ok {
		return nil
	}
	if op, ok := lockOpOf(d); ok {
		if op.kind == "Unlock" || op.kind == "RUnlock" {
			return []lockOp{op}
		}
		return nil
	}
	return closureReleases(d)
}

type lockAnalysis struct {
	fn       *ssa.Function
	entry    lockState
	deferred map[lockID]bool // unlock registered with defer somewhere
	// per instruction state before it
	before map[ssa.Instruction]lockState
}

// lockFlow runs the must-held dataflow from (start,startIdx) with the given initial state and
// returns the state before every instruction reachable from there (meet over the paths that
// begin at the start point only).
func lockFlow(fn *ssa.Function, start *ssa.BasicBlock, startIdx int, init lockState) map[ssa.Instruction]lockState {
	before := map[ssa.Instruction]lockState{}
	// TryLock results: value → lock id
	try := map[ssa.Value]lockOp{}
	for _, ins := range allInstrs(fn) {
		if op, ok := lockOpOf(ins); ok && (op.kind == "TryLock" || op.kind == "TryRLock") {
			if v, ok := ins.(ssa.Value); ok {
				try[v] = op
			}
		}
	}
	transfer := func(b *ssa.BasicBlock, from int, st lockState, record bool) lockState {
		st = st.clone()
		for i := from; i < len(b.Instrs); i++ {
			ins := b.Instrs[i]
			if record {
				if cur, ok := before[ins]; ok {
					before[ins] = meet(cur, st)
				} else {
					before[ins] = st.clone()
				}
			}
			op, ok := lockOpOf(ins)
			if !ok {
				continue
			}
			if _, isDefer := ins.(*ssa.Defer); isDefer {
				continue
			}
			if _, isGo := ins.(*ssa.Go); isGo {
				continue
			}
			switch op.kind {
			case "Lock":
				st[op.id] = "W"
			case "RLock":
				st[op.id] = "R"
			case "Unlock", "RUnlock":
				delete(st, op.id)
			}
		}
		return st
	}
	in := map[*ssa.BasicBlock]lockState{}
	var work []*ssa.BasicBlock
	push := func(b *ssa.BasicBlock, st lockState) {
		for si, s := range b.Succs {
			edge := st
			// TryLock: held only on the true edge of `if trylock()`
			if iff, ok := b.Instrs[len(b.Instrs)-1].(*ssa.If); ok {
				if op, isTry := try[iff.Cond]; isTry && si == 0 {
					edge = st.clone()
					if op.kind == "TryLock" {
						edge[op.id] = "W"
					} else {
						edge[op.id] = "R"
					}
				}
			}
			if cur, ok := in[s]; ok {
				m := meet(cur, edge)
				if !equalState(m, cur) {
					in[s] = m
					work = append(work, s)
				}
			} else {
				in[s] = edge.clone()
				work = append(work, s)
			}
		}
	}
	if startIdx == 0 {
		in[start] = init.clone()
		work = append(work, start)
	} else {
		push(start, transfer(start, startIdx, init, false))
	}
	for n := 0; len(work) > 0 && n < 100000; n++ {
		b := work[0]
		work = work[1:]
		push(b, transfer(b, 0, in[b], false))
	}
	if startIdx != 0 {
		transfer(start, startIdx, init, true)
	}
	for _, b := range fn.Blocks {
		if st, ok := in[b]; ok {
			transfer(b, 0, st, true)
		}
	}
	return before
}

// analyseLocks runs the must-held dataflow from the function's entry.
// analyseLocks: the analysis of a function entered with no lock held.
func analyseLocks(fn *ssa.Function) *lockAnalysis { return analyseLocksFrom(fn, lockState{}) }

func analyseLocksFrom(fn *ssa.Function, entry lockState) *lockAnalysis {
	la := &lockAnalysis{fn: fn, entry: entry, deferred: map[lockID]bool{}, before: map[ssa.Instruction]lockState{}}
	if len(fn.Blocks) == 0 {
		return la
	}
	if entry == nil {
		entry = lockState{}
	}
	for _, ins := range allInstrs(fn) {
		for _, op := range deferredUnlocks(ins) {
			la.deferred[op.id] = true
		}
	}
	la.before = lockFlow(fn, fn.Blocks[0], 0, entry)
	return la
}

// atExits: the lock state in which the calls registered by the defer statement d run — the
// meet, over every exit of the function reachable from d, of the state before its deferred
// calls start.
func (la *lockAnalysis) atExits(d ssa.Instruction) (lockState, []ssa.Instruction) {
	flow := lockFlow(la.fn, d.Block(), instrIdx(d)+1, la.before[d])
	var st lockState
	var exits []ssa.Instruction
	for _, b := range la.fn.Blocks {
		for _, ins := range b.Instrs {
			if _, ok := ins.(*ssa.RunDefers); !ok {
				continue
			}
			s, reached := flow[ins]
			if !reached {
				continue
			}
			exits = append(exits, ins)
			if st == nil {
				st = s.clone()
			} else {
				st = meet(st, s)
			}
		}
	}
	if st == nil {
		st = lockState{}
	}
	return st, exits
}

// lockCtx memoises the per-function analyses and computes the lock state a function starts
// in: the meet of the states of all its call sites (caller-holds-lock helpers, closures
// handed to a locking wrapper, deferred closures).
type lockCtx struct {
	r      *Run
	an     map[*ssa.Function]*lockAnalysis
	inprog map[*ssa.Function]bool
}

func newLockCtx(r *Run) *lockCtx {
	return &lockCtx{r: r, an: map[*ssa.Function]*lockAnalysis{}, inprog: map[*ssa.Function]bool{}}
}

func (lc *lockCtx) analysis(fn *ssa.Function) *lockAnalysis {
	if la, ok := lc.an[fn]; ok {
		return la
	}
	if lc.inprog[fn] {
		// recursion: nothing is assumed about the entry state
		return analyseLocks(fn)
	}
	lc.inprog[fn] = true
	la := analyseLocksFrom(fn, lc.entryState(fn))
	delete(lc.inprog, fn)
	lc.an[fn] = la
	return la
}

// closureSites: the MakeClosure instructions creating fn in its parent.
func closureSites(fn *ssa.Function) []*ssa.MakeClosure {
	var out []*ssa.MakeClosure
	if fn.Parent() == nil {
		return nil
	}
	for _, ins := range allInstrs(fn.Parent()) {
		if mc, ok := ins.(*ssa.MakeClosure); ok && mc.Fn == ssa.Value(fn) {
			out = append(out, mc)
		}
	}
	return out
}

// entryState: which locks are certainly held whenever fn starts, in fn's own terms.
func (lc *lockCtx) entryState(fn *ssa.Function) lockState {
	cg := lc.r.P.CG
	edges := cg.In[origin(fn)]
	if len(edges) == 0 || (fn.Parent() == nil && isExported(fn)) {
		return lockState{}
	}
	var acc lockState
	add := func(s lockState) {
		if acc == nil {
			acc = s.clone()
		} else {
			acc = meet(acc, s)
		}
	}
	for _, e := range edges {
		if len(acc) == 0 && acc != nil {
			break
		}
		if e.Kind == "hoarg" {
			// "called on behalf of the site that passes the function": the real call is the
			// `param` edge inside the higher-order callee, judged below
			continue
		}
		if _, isGo := e.Site.(*ssa.Go); isGo || e.Kind == "extarg" || e.Kind == "invoke" || e.Caller == nil {
			return lockState{}
		}
		cla := lc.analysis(e.Caller)
		var at lockState
		if _, isDefer := e.Site.(*ssa.Defer); isDefer {
			at, _ = cla.atExits(e.Site)
		} else {
			at = cla.before[e.Site]
		}
		tr := lockState{}
		args := e.Site.Common().Args
		switch {
		case fn.Parent() == nil:
			if e.Kind != "static" || e.Site.Common().StaticCallee() == nil {
				return lockState{}
			}
			for id, mode := range at {
				for i, a := range args {
					if canonBase(a) == id.base {
						if pb := paramBase(fn, i); pb != nil {
							tr[lockID{base: pb, field: id.field}] = mode
						}
					}
				}
			}
		case e.Caller == fn.Parent():
			// the closure runs in the function that creates it
			sites := closureSites(fn)
			if len(sites) != 1 {
				return lockState{}
			}
			for id, mode := range at {
				for j, b := range sites[0].Bindings {
					if b == id.base && j < len(fn.FreeVars) {
						tr[lockID{base: fn.FreeVars[j], field: id.field}] = mode
					}
				}
			}
		default:
			// the closure is handed to e.Caller (a wrapper) which calls it: translate the
			// wrapper's parameters to the arguments at the sites that pass the closure,
			// then to the captured variables
			h := e.Caller
			sites := closureSites(fn)
			if len(sites) != 1 {
				return lockState{}
			}
			mc := sites[0]
			var passing []ssa.CallInstruction
			if mc.Referrers() != nil {
				for _, ref := range *mc.Referrers() {
					if _, isDbg := ref.(*ssa.DebugRef); isDbg {
						continue
					}
					ci, isCall := ref.(ssa.CallInstruction)
					if !isCall || ci.Common().StaticCallee() == nil || origin(ci.Common().StaticCallee()) != origin(h) {
						return lockState{}
					}
					if _, isGo := ci.(*ssa.Go); isGo {
						return lockState{}
					}
					passing = append(passing, ci)
				}
			}
			if len(passing) == 0 {
				return lockState{}
			}
			first := true
			for _, ci := range passing {
				one := lockState{}
				for id, mode := range at {
					k := paramIndexOfBase(h, id.base)
					if k < 0 || k >= len(ci.Common().Args) {
						continue
					}
					x := canonBase(ci.Common().Args[k])
					for j, b := range mc.Bindings {
						if b == x && j < len(fn.FreeVars) {
							one[lockID{base: fn.FreeVars[j], field: id.field}] = mode
						}
					}
				}
				if first {
					tr, first = one, false
				} else {
					tr = meet(tr, one)
				}
			}
		}
		add(tr)
	}
	if acc == nil {
		acc = lockState{}
	}
	return acc
}

// lockAcq: fn (or a function it calls) takes the mutex field `field` of its parameter `param`.
type lockAcq struct {
	param, field int
	kind         string
	via          string
}

// acquires summarises the locks a function takes on objects it is handed, following static
// calls (not goroutines).
func (lc *lockCtx) acquires(fn *ssa.Function, seen map[*ssa.Function]bool) []lockAcq {
	if fn == nil || len(fn.Blocks) == 0 || seen[fn] || len(seen) > 200 {
		return nil
	}
	seen[fn] = true
	var out []lockAcq
	for _, ins := range allInstrs(fn) {
		if _, isGo := ins.(*ssa.Go); isGo {
			continue
		}
		if op, ok := lockOpOf(ins); ok {
			if _, isCall := ins.(*ssa.Call); isCall && (op.kind == "Lock" || op.kind == "RLock") {
				if k := paramIndexOfBase(fn, op.id.base); k >= 0 {
					out = append(out, lockAcq{param: k, field: op.id.field, kind: op.kind, via: fnName(fn)})
				}
			}
			continue
		}
		ci, ok := ins.(ssa.CallInstruction)
		if !ok {
			continue
		}
		callee := ci.Common().StaticCallee()
		if callee == nil || len(callee.Blocks) == 0 {
			continue
		}
		for _, a := range lc.acquires(callee, seen) {
			if a.param >= len(ci.Common().Args) {
				continue
			}
			if k := paramIndexOfBase(fn, canonBase(ci.Common().Args[a.param])); k >= 0 {
				out = append(out, lockAcq{param: k, field: a.field, kind: a.kind, via: a.via})
			}
		}
	}
	return out
}

// guardedFields: struct type → field → mutex field name; immutable: fields written only at
// construction.
var guardedFields = map[string]map[string]string{
	plannerPkg + ".CachedPlanner":                  {"cache": "RWMutex", "cacheTimers": "RWMutex"},
	modPath + "/executor.CachedPointDataExtractor": {"cache": "RWMutex"},
	modPath + ".subscriptionEntry":                 {"isClosed": "Mutex"},
}

var immutableFields = map[string]map[string]string{
	plannerPkg + ".CachedPlanner": {
		"TTL":      "set by NewCachedPlanner only (checked: R2.L1 reports any store into a planner the storing function did not allocate)",
		"executor": "set by NewCachedPlanner / WithPlannerExecutor before the planner is handed to the gateway (a usage convention of the exported builder: calling it while requests run would race with Plan)",
		"RWMutex":  "the guard itself",
	},
	modPath + "/executor.CachedPointDataExtractor": {"RWMutex": "the guard itself"},
	modPath + ".subscriptionEntry": {
		"Mutex":          "the guard itself",
		"id":             "constructor-only (rule R3d)",
		"request":        "constructor-only (rule R3d)",
		"gateway":        "constructor-only (rule R3d)",
		"originalPlan":   "constructor-only (rule R3d); the plan itself is immutable (R3a)",
		"executorFn":     "constructor-only (rule R3d)",
		"closeCh":        "constructor-only channel value (rule R3d); operations on it are governed by R8a",
		"queryerCloseCh": "constructor-only channel value (rule R3d); operations on it are governed by R8a",
		"respCh":         "constructor-only channel value (rule R3d); operations on it are governed by R8a",
	},
}

func structOfFieldAddr(fa *ssa.FieldAddr) string { return namedOf(fa.X.Type()) }

func mutexFieldIndex(t types.Type, name string) int {
	st, ok := derefType(t).Underlying().(*types.Struct)
	if !ok {
		return -1
	}
	for i := 0; i < st.NumFields(); i++ {
		if st.Field(i).Name() == name {
			return i
		}
	}
	// the guard was renamed or changed between Mutex and RWMutex: the struct's only
	// mutex-typed field is the guard
	found := -1
	for i := 0; i < st.NumFields(); i++ {
		if isMutexType(st.Field(i).Type()) {
			if found >= 0 {
				return -1
			}
			found = i
		}
	}
	return found
}

func isMutexType(t types.Type) bool {
	n := namedOf(t)
	return n == "sync.Mutex" || n == "sync.RWMutex"
}

// immutableWriters: functions allowed to store into an immutable-after-construction field of
// an object they did not allocate (builder methods documented to run before sharing).
var immutableWriters = map[string]map[string]string{
	plannerPkg + ".CachedPlanner.executor": {
		"planner.(*CachedPlanner).WithPlannerExecutor": "exported builder, called before the planner is handed to the gateway (usage convention)",
	},
}

// mapReaders: functions without a body in the module that only read the map they are given
// and do not keep it (anything else without a body is assumed to write it).
var mapReaders = map[string]string{
	"maps.Clone":                   "copies the entries into a new map",
	"maps.Equal":                   "compares entries",
	"golang.org/x/exp/maps.Keys":   "copies the keys into a new slice",
	"golang.org/x/exp/maps.Values": "copies the values into a new slice",
	"golang.org/x/exp/maps.Clone":  "copies the entries into a new map",
	"github.com/samber/lo.Keys":    "copies the keys into a new slice",
	"github.com/samber/lo.Values":  "copies the values into a new slice",
}

func isAtomicScalar(t types.Type) bool {
	switch namedOf(t) {
	case "sync/atomic.Int32", "sync/atomic.Int64", "sync/atomic.Uint32", "sync/atomic.Uint64", "sync/atomic.Uintptr", "sync/atomic.Bool":
		if _, isPtr := t.Underlying().(*types.Pointer); !isPtr {
			return true
		}
	}
	return false
}

// mapParamUse summarises what a callee does with a map it is handed: writes it, lets it
// escape (returns, stores, captures, passes to unknown code), or only reads it.
func mapParamUse(v ssa.Value, depth int, seen map[ssa.Value]bool) (writes, escapes bool) {
	if v.Referrers() == nil || seen[v] {
		return false, false
	}
	seen[v] = true
	if depth > 4 {
		return true, true
	}
	for _, ref := range *v.Referrers() {
		switch y := ref.(type) {
		case *ssa.DebugRef, *ssa.Lookup, *ssa.Range:
		case *ssa.MapUpdate:
			if y.Map == v {
				writes = true
			} else {
				escapes = true
			}
		case *ssa.BinOp: // comparison with nil
		case *ssa.ChangeType:
			w, e := mapParamUse(y, depth, seen)
			writes, escapes = writes || w, escapes || e
		case *ssa.Call:
			if b, isB := y.Call.Value.(*ssa.Builtin); isB {
				if b.Name() == "delete" || b.Name() == "clear" {
					writes = true
				}
				continue
			}
			callee := y.Call.StaticCallee()
			if callee == nil || len(callee.Blocks) == 0 || y.Call.IsInvoke() {
				return true, true
			}
			for i, a := range y.Call.Args {
				if a == v && i < len(callee.Params) {
					w, e := mapParamUse(callee.Params[i], depth+1, seen)
					writes, escapes = writes || w, escapes || e
				}
			}
		default:
			escapes = true
		}
	}
	return
}

func ruleLocks(structs ...string) ruleFn {
	want := map[string]bool{}
	for _, s := range structs {
		want[s] = true
	}
	return func(r *Run) {
		nOps := map[string]int{}
		nAcc := map[string]int{} // struct.field → accesses judged
		lc := newLockCtx(r)
		var fns []*ssa.Function
		fns = append(fns, r.P.Funcs...)
		sort.Slice(fns, func(i, j int) bool { return fnName(fns[i]) < fnName(fns[j]) })
		for _, fn := range fns {
			// only functions that touch one of the wanted structs' locks or guarded fields
			relevant := false
			for _, ins := range allInstrs(fn) {
				if _, ok := lockOpOf(ins); ok {
					if fa, isFA := opFieldAddr(ins); isFA && want[structOfFieldAddr(fa)] {
						relevant = true
					}
				}
				if fa, ok := ins.(*ssa.FieldAddr); ok && want[structOfFieldAddr(fa)] {
					relevant = true
				}
				if u, ok := ins.(*ssa.UnOp); ok && u.Op == token.MUL && isWantedStructValue(u.Type(), want) {
					relevant = true
				}
				// hands one of the structs to a callee (which may lock it)
				if ci, ok := ins.(ssa.CallInstruction); ok && !relevant {
					for _, a := range ci.Common().Args {
						if want[namedOf(a.Type())] {
							relevant = true
						}
					}
				}
			}
			if !relevant {
				continue
			}
			la := lc.analysis(fn)
			name := fnName(fn)
			// L2 pairing
			for _, ins := range allInstrs(fn) {
				// releases registered by `defer func(){ mu.Unlock() }()`
				if d, isD := ins.(*ssa.Defer); isD {
					if _, direct := lockOpOf(d); !direct {
						for _, op := range closureReleases(d) {
							lc.checkDeferred(la, name, d, op, want, nOps)
						}
						continue
					}
				}
				op, ok := lockOpOf(ins)
				if !ok {
					continue
				}
				fa, isFA := opFieldAddr(ins)
				if !isFA || !want[structOfFieldAddr(fa)] {
					continue
				}
				sname := structOfFieldAddr(fa)
				nOps[sname]++
				site := r.P.pos(ins.Pos())
				st := la.before[ins]
				_, isDefer := ins.(*ssa.Defer)
				switch op.kind {
				case "Unlock", "RUnlock":
					mode := unlockMode(op.kind)
					if isDefer {
						nOps[sname]--
						lc.checkDeferred(la, name, ins, op, want, nOps)
						continue
					}
					if st[op.id] == mode {
						r.OK("R2.L2", name, op.kind, site, "the lock is held in the matching mode on every path reaching this point")
					} else {
						why := "the mutex is not known to be held here"
						if st[op.id] != "" {
							why = "the mutex is held in a different (or path-dependent) mode here"
						}
						if hasUncheckedTry(fn, op.id) {
							why = "it follows a TryLock whose result is ignored: when TryLock fails, another goroutine holds the mutex and this Unlock releases *its* critical section (or crashes with `unlock of unlocked mutex`)"
						}
						r.Bad("R2.L2", name, op.kind, site, op.kind+" on a mutex that is not must-held in the matching mode: "+why)
					}
				case "Lock", "RLock":
					if _, isCall := ins.(*ssa.Call); isCall && st[op.id] != "" {
						r.Bad("R2.L3", name, op.kind+" while held", site, op.kind+" on a mutex this goroutine already holds ("+st[op.id]+"): sync mutexes are not reentrant — the goroutine blocks on itself (a second RLock blocks as soon as a writer is waiting)")
					}
					// released on every path, in the matching mode?
					wantRel := "Unlock"
					if op.kind == "RLock" {
						wantRel = "RUnlock"
					}
					released, bad := mustPass(ins.Block(), instrIdx(ins)+1, func(i ssa.Instruction) bool {
						if o2, ok := lockOpOf(i); ok {
							return o2.id == op.id && o2.kind == wantRel
						}
						for _, o2 := range deferredUnlocks(i) {
							if o2.id == op.id && o2.kind == wantRel {
								return true
							}
						}
						return false
					})
					if !released {
						// re-acquired under a pending deferred release (temporary unlock/lock
						// inside a `Lock(); defer Unlock()` section): the defer registered on
						// every path to this point releases it; checkDeferred verifies the mode
						// at the exits
						for _, i2 := range allInstrs(fn) {
							if i2 == ins || !instrDominates(i2, ins) {
								continue
							}
							for _, o2 := range deferredUnlocks(i2) {
								if o2.id == op.id && o2.kind == wantRel {
									released = true
								}
							}
						}
					}
					if released {
						r.OK("R2.L2", name, op.kind, site, "released (or its release deferred) on every path to return")
					} else {
						r.Bad("R2.L2", name, op.kind, site, "a path from this "+op.kind+" to the return at "+r.P.pos(bad.Pos())+" does not release the mutex with "+wantRel+": the next locker blocks forever")
					}
				case "TryLock", "TryRLock":
					v, _ := ins.(ssa.Value)
					used := v != nil && v.Referrers() != nil && len(*v.Referrers()) > 0
					if used {
						r.OK("R2.L2", name, op.kind, site, "result is branched on")
					} else {
						r.Bad("R2.L2", name, op.kind, site, "the result of TryLock is discarded: the code continues as if it held the mutex")
					}
				}
			}
			// L3 no re-acquisition through a callee while the lock is held
			for _, ins := range allInstrs(fn) {
				ci, ok := ins.(ssa.CallInstruction)
				if !ok {
					continue
				}
				if _, isGo := ins.(*ssa.Go); isGo {
					continue
				}
				if _, isLock := lockOpOf(ins); isLock {
					continue
				}
				callee := ci.Common().StaticCallee()
				if callee == nil || len(callee.Blocks) == 0 {
					continue
				}
				st := la.before[ins]
				if _, isDefer := ins.(*ssa.Defer); isDefer {
					st, _ = la.atExits(ins)
				}
				if len(st) == 0 {
					continue
				}
				reported := map[lockID]bool{}
				for _, a := range lc.acquires(callee, map[*ssa.Function]bool{}) {
					if a.param >= len(ci.Common().Args) {
						continue
					}
					base := canonBase(ci.Common().Args[a.param])
					if !want[namedOf(base.Type())] && !want[namedOf(derefType(base.Type()))] {
						continue
					}
					id := lockID{base: base, field: a.field}
					if st[id] == "" || reported[id] {
						continue
					}
					reported[id] = true
					r.Bad("R2.L3", name, "call "+fnName(callee)+" while holding the lock", r.P.pos(ins.Pos()), "the mutex is held ("+st[id]+") at this call and "+a.via+" takes it again ("+a.kind+"): sync mutexes are not reentrant — the goroutine locks itself out and every later request blocks behind it")
				}
			}
			// L1 copies of the whole struct
			for _, ins := range allInstrs(fn) {
				u, ok := ins.(*ssa.UnOp)
				if !ok || u.Op != token.MUL || !isWantedStructValue(u.Type(), want) {
					continue
				}
				if al, isAl := u.X.(*ssa.Alloc); isAl && al.Parent() == fn {
					continue // a value built in this function (composite literal)
				}
				sname := namedOf(u.Type())
				r.Bad("R2.L1", name, "copy "+shortStruct(sname), r.P.pos(u.Pos()), "the lock-protected struct is copied by value: the copy gets its own (fresh or mid-state) mutex but shares the guarded maps with the original, so the two are used under different locks (and the copy itself reads the fields without the lock)")
			}
			// L1 guarded-by
			for _, ins := range allInstrs(fn) {
				fa, ok := ins.(*ssa.FieldAddr)
				if !ok {
					continue
				}
				sname := structOfFieldAddr(fa)
				if !want[sname] {
					continue
				}
				f := fieldOf(fa)
				if f == nil {
					continue
				}
				// construction: the struct was allocated in this function
				if freshObject(fn, fa.X, 0) {
					continue
				}
				if isMutexType(f.Type()) {
					continue // the guard itself
				}
				if reason, isImm := immutableFields[sname][f.Name()]; isImm {
					// the table claims the field is not written after construction: check it
					for _, ref := range *fa.Referrers() {
						st, isSt := ref.(*ssa.Store)
						if !isSt || st.Addr != ssa.Value(fa) {
							continue
						}
						construct := "store " + shortStruct(sname) + "." + f.Name()
						if why, ok := immutableWriters[sname+"."+f.Name()][name]; ok {
							r.Tabled("R2.L1", name, construct, r.P.pos(st.Pos()), "immutableWriters", why)
							continue
						}
						r.Bad("R2.L1", name, construct, r.P.pos(st.Pos()), "field "+f.Name()+" is read without the lock because it is listed as immutable after construction ("+reason+"), but it is stored here into an object this function did not allocate: concurrent requests read it while it is written (data race)")
					}
					continue
				}
				key := sname + "." + f.Name()
				mfield, isGuarded := guardedFields[sname][f.Name()]
				if isGuarded && isAtomicScalar(f.Type()) {
					nAcc[key]++
					r.OK("R2.L1", name, "access "+shortStruct(sname)+"."+f.Name(), r.P.pos(fa.Pos()), "the field's type is one of sync/atomic's scalars: every access goes through its atomic methods, no lock is needed")
					continue
				}
				if !isGuarded {
					if _, known := guardedFields[sname]; known {
						if r.atomicOnly(sname, f.Name(), f.Type()) {
							nAcc[key]++
							r.OK("R2.L1", name, "access "+shortStruct(sname)+"."+f.Name(), r.P.pos(fa.Pos()), "every access in the module goes through sync/atomic (the field's address is only ever handed to sync/atomic functions, or its type is one of sync/atomic's)")
							continue
						}
						if valueImmutable(f.Type()) && r.constructorOnly(sname, f.Name()) {
							nAcc[key]++
							r.OK("R2.L1", name, "access "+shortStruct(sname)+"."+f.Name(), r.P.pos(fa.Pos()), "a plain value (number, string, bool or function) stored only into structs the storing function has just allocated: immutable after construction")
							continue
						}
						nAcc[key]++
						r.Bad("R2.L1", name, "access "+shortStruct(sname)+"."+f.Name(), r.P.pos(fa.Pos()), "field "+f.Name()+" of a lock-protected, shared struct is neither listed as guarded nor as immutable-after-construction: shared mutable state used by concurrent requests needs a guard (if it is guarded or immutable, add it to the table with the reason)")
					}
					continue
				}
				id := lockID{base: canonBase(fa.X), field: mutexFieldIndex(fa.X.Type(), mfield)}
				lc.guardedUses(la, name, fa, sname, f.Name(), mfield, id, func() { nAcc[key]++ })
			}
		}
		// anti-vacuity, computed from the table: every guarded field of every wanted struct was
		// seen and judged at least once, and a struct with lock-guarded (non-atomic) fields has
		// at least one acquire and one release
		var snames []string
		for s := range want {
			snames = append(snames, s)
		}
		sort.Strings(snames)
		for _, sname := range snames {
			needLock := false
			var fields []string
			for f := range guardedFields[sname] {
				fields = append(fields, f)
			}
			sort.Strings(fields)
			for _, f := range fields {
				r.AtLeast("R2", "guarded accesses of "+shortStruct(sname)+"."+f, nAcc[sname+"."+f], 1)
				if t := fieldTypeOf(r.P, sname, f); t == nil || !isAtomicScalar(t) {
					needLock = true
				}
			}
			if needLock {
				r.AtLeast("R2", "lock operations on "+shortStruct(sname), nOps[sname], 2)
			}
		}
	}
}

// fieldTypeOf looks up the type of a struct field by qualified struct name.
func fieldTypeOf(P *Prog, sname, field string) types.Type {
	i := strings.LastIndex(sname, ".")
	if i < 0 {
		return nil
	}
	pkg := P.ByPath[sname[:i]]
	if pkg == nil || pkg.Types == nil {
		return nil
	}
	obj := pkg.Types.Scope().Lookup(sname[i+1:])
	if obj == nil {
		return nil
	}
	st, ok := obj.Type().Underlying().(*types.Struct)
	if !ok {
		return nil
	}
	for k := 0; k < st.NumFields(); k++ {
		if st.Field(k).Name() == field {
			return st.Field(k).Type()
		}
	}
	return nil
}

func isWantedStructValue(t types.Type, want map[string]bool) bool {
	if _, isPtr := t.Underlying().(*types.Pointer); isPtr {
		return false
	}
	n, ok := t.(*types.Named)
	if !ok {
		return false
	}
	if _, isStruct := n.Underlying().(*types.Struct); !isStruct {
		return false
	}
	return want[namedOf(t)]
}

// checkDeferred judges a release registered with defer: the lock must be held in the matching
// mode where the defer is registered AND still be held in that mode at every exit the defer
// runs on (an explicit Unlock before a return, under a pending deferred Unlock, unlocks twice).
func (lc *lockCtx) checkDeferred(la *lockAnalysis, name string, d ssa.Instruction, op lockOp, want map[string]bool, nOps map[string]int) {
	r := lc.r
	sname := ""
	if pt, ok := op.id.base.Type().Underlying().(*types.Pointer); ok {
		sname = namedOf(pt.Elem())
		if !want[sname] {
			// a cell holding the pointer (captured variable)
			sname = namedOf(derefType(pt.Elem()))
		}
	}
	if !want[sname] {
		return
	}
	nOps[sname]++
	site := r.P.pos(d.Pos())
	mode := unlockMode(op.kind)
	st := la.before[d]
	if st[op.id] != mode {
		r.Bad("R2.L2", name, "defer "+op.kind, site, "deferred "+op.kind+" is registered where the lock is not known to be held in that mode")
		return
	}
	flow := lockFlow(la.fn, d.Block(), instrIdx(d)+1, st)
	ok := true
	for _, b := range la.fn.Blocks {
		for _, ins := range b.Instrs {
			if _, isRD := ins.(*ssa.RunDefers); !isRD {
				continue
			}
			s, reached := flow[ins]
			if !reached || s[op.id] == mode {
				continue
			}
			ok = false
			why := "the mutex has already been released on a path to this return"
			if s[op.id] != "" {
				why = "the mutex is held in a different mode on a path to this return"
			}
			retPos := ins.Pos()
			for k := instrIdx(ins) + 1; k < len(b.Instrs) && !retPos.IsValid(); k++ {
				retPos = b.Instrs[k].Pos()
			}
			for k := instrIdx(ins) - 1; k >= 0 && !retPos.IsValid(); k-- {
				// `return` statements of a function with defers carry no position of their own:
				// name the last positioned statement before the exit
				retPos = b.Instrs[k].Pos()
			}
			r.Bad("R2.L2", name, "defer "+op.kind, site, "the deferred "+op.kind+" runs at the return at "+r.P.pos(retPos)+" where "+why+": unlocking an unlocked mutex is a fatal error (`sync: Unlock of unlocked RWMutex`) that takes the whole process down")
		}
	}
	if ok {
		r.OK("R2.L2", name, "defer "+op.kind, site, "registered while the lock is held in the matching mode, and still held in that mode at every return it runs on")
	}
}

// guardedUses judges every use of a guarded field reached through the field address fa:
// stores, loads and what happens to the loaded map (lookups, updates, ranges, calls it is
// handed to, and ways it can leave the critical section).
func (lc *lockCtx) guardedUses(la *lockAnalysis, name string, fa *ssa.FieldAddr, sname, fname, mfield string, id lockID, count func()) {
	r := lc.r
	type point struct {
		ins  ssa.Instruction
		need string
		what string
	}
	var points []point
	escape := func(ins ssa.Instruction, how string) {
		count()
		site := r.P.pos(ins.Pos())
		if site == "-" {
			site = r.P.pos(fa.Pos())
		}
		r.Bad("R2.L1", name, "escape "+shortStruct(sname)+"."+fname, site, "the guarded "+fname+" "+how+": whoever receives the reference uses the map after (or without) the critical section that loaded it — the lock protects the load of the field, not the map behind it")
	}
	var uses func(v ssa.Value, depth int)
	uses = func(v ssa.Value, depth int) {
		if v.Referrers() == nil {
			return
		}
		for _, r2 := range *v.Referrers() {
			switch y := r2.(type) {
			case *ssa.DebugRef:
			case *ssa.MapUpdate:
				if y.Map == v {
					points = append(points, point{y, "W", ""})
				} else {
					escape(y, "is stored into another map")
				}
			case *ssa.Lookup:
				points = append(points, point{y, "R", ""})
			case *ssa.Range:
				points = append(points, point{y, "R", ""})
				// the iteration reads the map at every step, not only where it starts
				if y.Referrers() != nil {
					for _, nx := range *y.Referrers() {
						if n, isNext := nx.(*ssa.Next); isNext {
							points = append(points, point{n, "R", ""})
						}
					}
				}
			case *ssa.BinOp:
				points = append(points, point{y, "R", ""})
			case *ssa.ChangeType:
				if depth < 4 {
					uses(y, depth+1)
				} else {
					escape(y, "is converted and used in a way the rule does not follow")
				}
			case *ssa.Go:
				escape(y, "is handed to a new goroutine")
			case *ssa.Defer:
				escape(y, "is handed to a deferred call (which runs after the function's unlocks)")
			case *ssa.Call:
				if b, isB := y.Call.Value.(*ssa.Builtin); isB {
					if b.Name() == "delete" || b.Name() == "clear" {
						points = append(points, point{y, "W", ""})
					} else {
						points = append(points, point{y, "R", ""})
					}
					continue
				}
				callee := y.Call.StaticCallee()
				if reason, ok := mapReaders[calleeName(&y.Call)]; ok && !y.Call.IsInvoke() {
					points = append(points, point{y, "R", ""})
					_ = reason
					continue
				}
				if callee == nil || len(callee.Blocks) == 0 || y.Call.IsInvoke() || !inModule(origin(callee)) {
					// no body to look at: a function handed a map may write it
					cn := calleeName(&y.Call)
					if cn == "" {
						cn = "a dynamically chosen function"
					}
					points = append(points, point{y, "W", "handed to " + cn + ", whose body is not analysed (it may modify the map it is given)"})
					continue
				}
				writes, escapes := false, false
				for i, a := range y.Call.Args {
					if a == v && i < len(callee.Params) {
						w, e := mapParamUse(callee.Params[i], 0, map[ssa.Value]bool{})
						writes, escapes = writes || w, escapes || e
					}
				}
				if escapes {
					escape(y, "is handed to "+fnName(callee)+", which keeps or passes on the reference")
					continue
				}
				if writes {
					points = append(points, point{y, "W", "handed to " + fnName(callee) + ", which writes the map"})
				} else {
					points = append(points, point{y, "R", ""})
				}
			case *ssa.Return:
				escape(y, "is returned to the caller")
			case *ssa.Store:
				// a local cell (named result, variable shared with a closure): follow its loads
				if al, isAl := y.Addr.(*ssa.Alloc); isAl && y.Val == v && depth < 4 && al.Referrers() != nil {
					local := true
					for _, ar := range *al.Referrers() {
						switch z := ar.(type) {
						case *ssa.Store:
							if z.Addr != ssa.Value(al) {
								local = false
							}
						case *ssa.UnOp, *ssa.DebugRef:
						default:
							local = false
						}
					}
					if local {
						for _, ar := range *al.Referrers() {
							if ld, isLd := ar.(*ssa.UnOp); isLd {
								uses(ld, depth+1)
							}
						}
						continue
					}
				}
				escape(y, "is stored into another variable or field")
			case *ssa.MakeClosure:
				escape(y, "is captured by a closure")
			default:
				escape(r2, "is used in a way the rule does not follow ("+strings.TrimPrefix(fmt.Sprintf("%T", r2), "*ssa.")+")")
			}
		}
	}
	for _, ref := range *fa.Referrers() {
		switch x := ref.(type) {
		case *ssa.DebugRef:
		case *ssa.Store:
			if x.Addr == ssa.Value(fa) {
				points = append(points, point{x, "W", ""})
			} else {
				escape(x, "'s address is stored")
			}
		case *ssa.UnOp:
			points = append(points, point{x, "R", ""})
			if _, isMap := x.Type().Underlying().(*types.Map); isMap {
				// the loaded value is a reference to the shared map: follow what is done with it
				// (a loaded bool or number is a private copy)
				uses(x, 0)
			}
		default:
			escape(ref, "'s address is passed on")
		}
	}
	for _, p := range points {
		count()
		st := la.before[p.ins]
		mode := st[id]
		okHeld := mode == "W" || (p.need == "R" && mode != "")
		site := r.P.pos(p.ins.Pos())
		if site == "-" {
			site = r.P.pos(fa.Pos())
		}
		construct := fmt.Sprintf("%s %s.%s", map[string]string{"R": "read", "W": "write"}[p.need], shortStruct(sname), fname)
		if okHeld {
			arg := "the guarding " + mfield + " is held (" + mode + ") on every path to this access"
			if _, fromCaller := la.entry[id]; fromCaller {
				arg += " (every caller of this function holds it at the call)"
			}
			r.OK("R2.L1", name, construct, site, arg)
		} else {
			why := "access to " + fname + " without holding its " + mfield + " (in " + map[string]string{"R": "read or write", "W": "write"}[p.need] + " mode) on every path: concurrent requests race on the map (Go aborts the process on concurrent map read/write)"
			if p.what != "" {
				why = fname + " is " + p.what + "; " + why
			}
			r.Bad("R2.L1", name, construct, site, why)
		}
	}
}

func shortStruct(s string) string { return s[strings.LastIndex(s, ".")+1:] }

func opFieldAddr(ins ssa.Instruction) (*ssa.FieldAddr, bool) {
	ci, ok := ins.(ssa.CallInstruction)
	if !ok || len(ci.Common().Args) == 0 {
		return nil, false
	}
	fa, ok := ci.Common().Args[0].(*ssa.FieldAddr)
	return fa, ok
}

func hasUncheckedTry(fn *ssa.Function, id lockID) bool {
	for _, ins := range allInstrs(fn) {
		if op, ok := lockOpOf(ins); ok && op.id == id && op.kind == "TryLock" {
			if v, ok := ins.(ssa.Value); ok && (v.Referrers() == nil || len(*v.Referrers()) == 0) {
				return true
			}
		}
	}
	return false
}

// valueImmutable: a value of this type carries no state that a later use could mutate — basic
// types, strings and function values (hooks). A pointer, map, slice, channel, interface or
// struct field set once can still be a shared mutable object (a formatter with a buffer).
func valueImmutable(t types.Type) bool {
	switch t.Underlying().(type) {
	case *types.Basic, *types.Signature:
		return true
	}
	return false
}

// atomicOnly: the field is a sync/atomic type, or every use of its address anywhere in the
// module is as an argument of a sync/atomic function (no plain load, no plain store outside a
// struct the storing function has just allocated).
func (r *Run) atomicOnly(sname, field string, t types.Type) bool {
	switch namedOf(t) {
	case "sync/atomic.Int32", "sync/atomic.Int64", "sync/atomic.Uint32", "sync/atomic.Uint64", "sync/atomic.Uintptr", "sync/atomic.Bool":
		// a scalar: there is nothing behind it that could be changed in place (atomic.Value and
		// atomic.Pointer hold a reference — a map kept in one is still written without a lock)
		return true
	}
	n := 0
	for _, fn := range r.P.Funcs {
		for _, ins := range allInstrs(fn) {
			x, ok := ins.(*ssa.FieldAddr)
			if !ok || structOfFieldAddr(x) != sname || fieldOf(x) == nil || fieldOf(x).Name() != field {
				continue
			}
			al, isAl := x.X.(*ssa.Alloc)
			fresh := isAl && al.Parent() == fn
			for _, ref := range *x.Referrers() {
				switch y := ref.(type) {
				case *ssa.DebugRef:
				case ssa.CallInstruction:
					if !strings.HasPrefix(calleeName(y.Common()), "sync/atomic.") {
						return false
					}
					n++
				case *ssa.Store:
					if !(fresh && y.Addr == ssa.Value(x)) {
						return false
					}
				default:
					return false
				}
			}
		}
	}
	return n > 0
}

// constructorOnly: every store to the named field anywhere in the module targets a struct
// allocated in the storing function (composite literal or new), i.e. happens before the
// object can be shared.
func (r *Run) constructorOnly(sname, field string) bool {
	for _, fn := range r.P.Funcs {
		for _, ins := range allInstrs(fn) {
			switch x := ins.(type) {
			case *ssa.FieldAddr:
				if structOfFieldAddr(x) != sname || fieldOf(x) == nil || fieldOf(x).Name() != field {
					continue
				}
				al, isAl := x.X.(*ssa.Alloc)
				fresh := isAl && al.Parent() == fn
				for _, ref := range *x.Referrers() {
					switch y := ref.(type) {
					case *ssa.UnOp, *ssa.DebugRef:
						// a load
					case *ssa.Store:
						if y.Addr == ssa.Value(x) && !fresh {
							return false
						}
						if y.Val == ssa.Value(x) {
							return false // the field's address is kept somewhere
						}
					default:
						// the address of the field leaves the expression (argument of a call,
						// element of a literal, captured, ...): whoever gets it can write through
						// it (second table audit: `count(&cp.served)`)
						if !fresh {
							return false
						}
					}
				}
			case *ssa.Store:
				// the whole struct is overwritten through a pointer: `*cp = CachedPlanner{...}`
				if _, isFA := x.Addr.(*ssa.FieldAddr); isFA {
					continue
				}
				if pt, ok := x.Addr.Type().Underlying().(*types.Pointer); ok && namedOf(pt.Elem()) == sname {
					if al, isAl := x.Addr.(*ssa.Alloc); !isAl || al.Parent() != fn {
						return false
					}
				}
			}
		}
	}
	return true
}
