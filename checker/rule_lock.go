package main

// R2 — LOCK (DESIGN §3 R2): must-held lockset over each function's CFG.
//  L1  guarded-by: accesses to the listed fields happen with the owning mutex held
//      (read mode suffices for reads); fields of the guarded structs that are not listed as
//      guarded or immutable are reported when touched on the request path
//  L2  pairing: Unlock/RUnlock only where the lock is must-held in the matching mode;
//      every lock taken is released on every path (directly or by a deferred unlock);
//      TryLock counts as held only on the true branch of its result

import (
	"fmt"
	"go/token"
	"go/types"
	"sort"
	"strings"

	"golang.org/x/tools/go/ssa"
)

type lockID struct {
	base  ssa.Value // the struct pointer/value owning the mutex
	field int       // index of the mutex field (embedded)
}

type lockState map[lockID]string // "R" | "W"

func (s lockState) clone() lockState {
	o := lockState{}
	for k, v := range s {
		o[k] = v
	}
	return o
}

func meet(a, b lockState) lockState {
	o := lockState{}
	for k, v := range a {
		if w, ok := b[k]; ok {
			if v == w {
				o[k] = v
			} else {
				o[k] = "R" // held at least in read mode
			}
		}
	}
	return o
}

func equalState(a, b lockState) bool {
	if len(a) != len(b) {
		return false
	}
	for k, v := range a {
		if b[k] != v {
			return false
		}
	}
	return true
}

type lockOp struct {
	id   lockID
	kind string // Lock RLock Unlock RUnlock TryLock
}

// lockOpOf recognises sync mutex operations whose receiver is &base.mutexField.
func lockOpOf(ins ssa.Instruction) (lockOp, bool) {
	ci, ok := ins.(ssa.CallInstruction)
	if !ok {
		return lockOp{}, false
	}
	c := ci.Common()
	n := calleeName(c)
	var kind string
	switch n {
	case "(*sync.RWMutex).Lock", "(*sync.Mutex).Lock":
		kind = "Lock"
	case "(*sync.RWMutex).RLock":
		kind = "RLock"
	case "(*sync.RWMutex).Unlock", "(*sync.Mutex).Unlock":
		kind = "Unlock"
	case "(*sync.RWMutex).RUnlock":
		kind = "RUnlock"
	case "(*sync.Mutex).TryLock", "(*sync.RWMutex).TryLock":
		kind = "TryLock"
	case "(*sync.RWMutex).TryRLock":
		kind = "TryRLock"
	default:
		return lockOp{}, false
	}
	if len(c.Args) == 0 {
		return lockOp{}, false
	}
	fa, ok := c.Args[0].(*ssa.FieldAddr)
	if !ok {
		return lockOp{kind: kind, id: lockID{base: c.Args[0], field: -1}}, true
	}
	return lockOp{kind: kind, id: lockID{base: canonBase(fa.X), field: fa.Field}}, true
}

// canonBase maps different loads of the same pointer cell to one representative.
func canonBase(v ssa.Value) ssa.Value {
	if ld, ok := v.(*ssa.UnOp); ok && ld.Op == token.MUL {
		switch ld.X.(type) {
		case *ssa.FreeVar, *ssa.Alloc:
			return ld.X
		}
	}
	return v
}

type lockAnalysis struct {
	fn       *ssa.Function
	in       map[*ssa.BasicBlock]lockState
	deferred map[lockID]bool // unlock registered with defer somewhere
	// per instruction state before it
	before map[ssa.Instruction]lockState
}

// analyseLocks runs the must-held dataflow.
func analyseLocks(fn *ssa.Function) *lockAnalysis {
	la := &lockAnalysis{fn: fn, in: map[*ssa.BasicBlock]lockState{}, deferred: map[lockID]bool{}, before: map[ssa.Instruction]lockState{}}
	if len(fn.Blocks) == 0 {
		return la
	}
	// TryLock results: value → lock id
	try := map[ssa.Value]lockOp{}
	for _, ins := range allInstrs(fn) {
		if op, ok := lockOpOf(ins); ok && (op.kind == "TryLock" || op.kind == "TryRLock") {
			if v, ok := ins.(ssa.Value); ok {
				try[v] = op
			}
		}
	}
	transfer := func(b *ssa.BasicBlock, st lockState, record bool) lockState {
		st = st.clone()
		for _, ins := range b.Instrs {
			if record {
				la.before[ins] = st.clone()
			}
			op, ok := lockOpOf(ins)
			if !ok {
				continue
			}
			if _, isDefer := ins.(*ssa.Defer); isDefer {
				if op.kind == "Unlock" || op.kind == "RUnlock" {
					la.deferred[op.id] = true
				}
				continue
			}
			if _, isGo := ins.(*ssa.Go); isGo {
				continue
			}
			switch op.kind {
			case "Lock":
				st[op.id] = "W"
			case "RLock":
				st[op.id] = "R"
			case "Unlock", "RUnlock":
				delete(st, op.id)
			}
		}
		return st
	}
	out := map[*ssa.BasicBlock]lockState{}
	la.in[fn.Blocks[0]] = lockState{}
	work := []*ssa.BasicBlock{fn.Blocks[0]}
	visited := map[*ssa.BasicBlock]bool{}
	for len(work) > 0 {
		b := work[0]
		work = work[1:]
		st := transfer(b, la.in[b], false)
		if visited[b] && equalState(out[b], st) {
			continue
		}
		visited[b] = true
		out[b] = st
		for si, s := range b.Succs {
			edge := st
			// TryLock: held only on the true edge of `if trylock()`
			if iff, ok := b.Instrs[len(b.Instrs)-1].(*ssa.If); ok {
				if op, isTry := try[iff.Cond]; isTry && si == 0 {
					edge = st.clone()
					if op.kind == "TryLock" {
						edge[op.id] = "W"
					} else {
						edge[op.id] = "R"
					}
				}
			}
			if cur, ok := la.in[s]; ok {
				m := meet(cur, edge)
				if !equalState(m, cur) {
					la.in[s] = m
					work = append(work, s)
				} else if !visited[s] {
					work = append(work, s)
				}
			} else {
				la.in[s] = edge.clone()
				work = append(work, s)
			}
		}
	}
	for _, b := range fn.Blocks {
		if st, ok := la.in[b]; ok {
			transfer(b, st, true)
		}
	}
	return la
}

// guardedFields: struct type → field → mutex field name; immutable: fields written only at
// construction.
var guardedFields = map[string]map[string]string{
	plannerPkg + ".CachedPlanner":                  {"cache": "RWMutex", "cacheTimers": "RWMutex"},
	modPath + "/executor.CachedPointDataExtractor": {"cache": "RWMutex"},
	modPath + ".subscriptionEntry":                 {"isClosed": "Mutex"},
}

var immutableFields = map[string]map[string]string{
	plannerPkg + ".CachedPlanner": {
		"TTL":      "set by NewCachedPlanner only",
		"executor": "set by NewCachedPlanner / WithPlannerExecutor before the planner is handed to the gateway (a usage convention of the exported builder: calling it while requests run would race with Plan)",
		"RWMutex":  "the guard itself",
	},
	modPath + "/executor.CachedPointDataExtractor": {"RWMutex": "the guard itself"},
	modPath + ".subscriptionEntry": {
		"Mutex":          "the guard itself",
		"id":             "constructor-only (rule R3d)",
		"request":        "constructor-only (rule R3d)",
		"gateway":        "constructor-only (rule R3d)",
		"originalPlan":   "constructor-only (rule R3d); the plan itself is immutable (R3a)",
		"executorFn":     "constructor-only (rule R3d)",
		"closeCh":        "constructor-only channel value (rule R3d); operations on it are governed by R8a",
		"queryerCloseCh": "constructor-only channel value (rule R3d); operations on it are governed by R8a",
		"respCh":         "constructor-only channel value (rule R3d); operations on it are governed by R8a",
	},
}

func structOfFieldAddr(fa *ssa.FieldAddr) string { return namedOf(fa.X.Type()) }

func mutexFieldIndex(t types.Type, name string) int {
	st, ok := derefType(t).Underlying().(*types.Struct)
	if !ok {
		return -1
	}
	for i := 0; i < st.NumFields(); i++ {
		if st.Field(i).Name() == name {
			return i
		}
	}
	// the guard was renamed or changed between Mutex and RWMutex: the struct's only
	// mutex-typed field is the guard
	found := -1
	for i := 0; i < st.NumFields(); i++ {
		if isMutexType(st.Field(i).Type()) {
			if found >= 0 {
				return -1
			}
			found = i
		}
	}
	return found
}

func isMutexType(t types.Type) bool {
	n := namedOf(t)
	return n == "sync.Mutex" || n == "sync.RWMutex"
}

func ruleLocks(structs ...string) ruleFn {
	want := map[string]bool{}
	for _, s := range structs {
		want[s] = true
	}
	return func(r *Run) {
		nOps, nAcc := 0, 0
		var fns []*ssa.Function
		fns = append(fns, r.P.Funcs...)
		sort.Slice(fns, func(i, j int) bool { return fnName(fns[i]) < fnName(fns[j]) })
		for _, fn := range fns {
			// only functions that touch one of the wanted structs' locks or guarded fields
			relevant := false
			for _, ins := range allInstrs(fn) {
				if op, ok := lockOpOf(ins); ok {
					if fa, isFA := opFieldAddr(ins); isFA && want[structOfFieldAddr(fa)] {
						relevant = true
					}
					_ = op
				}
				if fa, ok := ins.(*ssa.FieldAddr); ok && want[structOfFieldAddr(fa)] {
					relevant = true
				}
			}
			if !relevant {
				continue
			}
			la := analyseLocks(fn)
			name := fnName(fn)
			// L2 pairing
			for _, ins := range allInstrs(fn) {
				op, ok := lockOpOf(ins)
				if !ok {
					continue
				}
				fa, isFA := opFieldAddr(ins)
				if !isFA || !want[structOfFieldAddr(fa)] {
					continue
				}
				nOps++
				site := r.P.pos(ins.Pos())
				st := la.before[ins]
				_, isDefer := ins.(*ssa.Defer)
				switch op.kind {
				case "Unlock", "RUnlock":
					mode := "W"
					if op.kind == "RUnlock" {
						mode = "R"
					}
					if isDefer {
						// deferred unlock: the lock must be held where the defer is registered
						if st[op.id] == mode {
							r.OK("R2.L2", name, "defer "+op.kind, site, "registered while the lock is held in the matching mode")
						} else {
							r.Bad("R2.L2", name, "defer "+op.kind, site, "deferred "+op.kind+" is registered where the lock is not known to be held in that mode")
						}
						continue
					}
					if st[op.id] == mode {
						r.OK("R2.L2", name, op.kind, site, "the lock is held in the matching mode on every path reaching this point")
					} else {
						why := "the mutex is not known to be held here"
						if hasUncheckedTry(fn, op.id) {
							why = "it follows a TryLock whose result is ignored: when TryLock fails, another goroutine holds the mutex and this Unlock releases *its* critical section (or crashes with `unlock of unlocked mutex`)"
						}
						r.Bad("R2.L2", name, op.kind, site, op.kind+" on a mutex that is not must-held in the matching mode: "+why)
					}
				case "Lock", "RLock":
					// released on every path?
					released, bad := mustPass(ins.Block(), instrIdx(ins)+1, func(i ssa.Instruction) bool {
						o2, ok := lockOpOf(i)
						if !ok || o2.id != op.id {
							return false
						}
						return o2.kind == "Unlock" || o2.kind == "RUnlock"
					})
					if released {
						r.OK("R2.L2", name, op.kind, site, "released (or its release deferred) on every path to return")
					} else {
						r.Bad("R2.L2", name, op.kind, site, "a path from this "+op.kind+" to the return at "+r.P.pos(bad.Pos())+" does not release the mutex: the next locker blocks forever")
					}
				case "TryLock", "TryRLock":
					v, _ := ins.(ssa.Value)
					used := v != nil && v.Referrers() != nil && len(*v.Referrers()) > 0
					if used {
						r.OK("R2.L2", name, op.kind, site, "result is branched on")
					} else {
						r.Bad("R2.L2", name, op.kind, site, "the result of TryLock is discarded: the code continues as if it held the mutex")
					}
				}
			}
			// L1 guarded-by
			for _, ins := range allInstrs(fn) {
				fa, ok := ins.(*ssa.FieldAddr)
				if !ok {
					continue
				}
				sname := structOfFieldAddr(fa)
				if !want[sname] {
					continue
				}
				f := fieldOf(fa)
				if f == nil {
					continue
				}
				// construction: the struct was allocated in this function
				if al, isAl := fa.X.(*ssa.Alloc); isAl && al.Parent() == fn {
					continue
				}
				if _, isImm := immutableFields[sname][f.Name()]; isImm {
					continue
				}
				if isMutexType(f.Type()) {
					continue // the guard itself
				}
				mfield, isGuarded := guardedFields[sname][f.Name()]
				if !isGuarded {
					if _, known := guardedFields[sname]; known {
						if r.atomicOnly(sname, f.Name(), f.Type()) {
							nAcc++
							r.OK("R2.L1", name, "access "+shortStruct(sname)+"."+f.Name(), r.P.pos(fa.Pos()), "every access in the module goes through sync/atomic (the field's address is only ever handed to sync/atomic functions, or its type is one of sync/atomic's)")
							continue
						}
						if valueImmutable(f.Type()) && r.constructorOnly(sname, f.Name()) {
							nAcc++
							r.OK("R2.L1", name, "access "+shortStruct(sname)+"."+f.Name(), r.P.pos(fa.Pos()), "a plain value (number, string, bool or function) stored only into structs the storing function has just allocated: immutable after construction")
							continue
						}
						nAcc++
						r.Bad("R2.L1", name, "access "+shortStruct(sname)+"."+f.Name(), r.P.pos(fa.Pos()), "field "+f.Name()+" of a lock-protected, shared struct is neither listed as guarded nor as immutable-after-construction: shared mutable state used by concurrent requests needs a guard (if it is guarded or immutable, add it to the table with the reason)")
					}
					continue
				}
				id := lockID{base: canonBase(fa.X), field: mutexFieldIndex(fa.X.Type(), mfield)}
				// every use of the address: loads (then uses of the loaded map), stores
				for _, ref := range *fa.Referrers() {
					var points []ssa.Instruction
					write := false
					switch x := ref.(type) {
					case *ssa.Store:
						if x.Addr == ssa.Value(fa) {
							points = append(points, x)
							write = true
						}
					case *ssa.UnOp:
						points = append(points, x)
						// uses of the loaded map value
						for _, r2 := range *x.Referrers() {
							switch y := r2.(type) {
							case *ssa.MapUpdate:
								if y.Map == ssa.Value(x) {
									points = append(points, y)
									write = true
								}
							case *ssa.Lookup, *ssa.Range:
								points = append(points, y.(ssa.Instruction))
							case *ssa.Call:
								if b, isB := y.Call.Value.(*ssa.Builtin); isB && b.Name() == "delete" {
									points = append(points, y)
									write = true
								} else {
									points = append(points, y)
								}
							}
						}
					}
					for _, p := range points {
						nAcc++
						st := la.before[p]
						mode := st[id]
						need := "R"
						_, isMU := p.(*ssa.MapUpdate)
						_, isSt := p.(*ssa.Store)
						isDel := false
						if c, ok := p.(*ssa.Call); ok {
							if b, isB := c.Call.Value.(*ssa.Builtin); isB && b.Name() == "delete" {
								isDel = true
							}
						}
						if isMU || isSt || isDel {
							need = "W"
						}
						_ = write
						okHeld := mode == "W" || (need == "R" && mode == "R")
						site := r.P.pos(p.Pos())
						if site == "-" {
							site = r.P.pos(fa.Pos())
						}
						construct := fmt.Sprintf("%s %s.%s", map[string]string{"R": "read", "W": "write"}[need], shortStruct(sname), f.Name())
						if okHeld {
							r.OK("R2.L1", name, construct, site, "the guarding "+mfield+" is held ("+mode+") on every path to this access")
						} else {
							r.Bad("R2.L1", name, construct, site, "access to "+f.Name()+" without holding its "+mfield+" (in "+map[string]string{"R": "read or write", "W": "write"}[need]+" mode) on every path: concurrent requests race on the map (Go aborts the process on concurrent map read/write)")
						}
					}
				}
			}
		}
		r.AtLeast("R2", "lock operations", nOps, 4)
		r.AtLeast("R2", "guarded accesses", nAcc, 2)
	}
}

func shortStruct(s string) string { return s[strings.LastIndex(s, ".")+1:] }

func opFieldAddr(ins ssa.Instruction) (*ssa.FieldAddr, bool) {
	ci, ok := ins.(ssa.CallInstruction)
	if !ok || len(ci.Common().Args) == 0 {
		return nil, false
	}
	fa, ok := ci.Common().Args[0].(*ssa.FieldAddr)
	return fa, ok
}

func hasUncheckedTry(fn *ssa.Function, id lockID) bool {
	for _, ins := range allInstrs(fn) {
		if op, ok := lockOpOf(ins); ok && op.id == id && op.kind == "TryLock" {
			if v, ok := ins.(ssa.Value); ok && (v.Referrers() == nil || len(*v.Referrers()) == 0) {
				return true
			}
		}
	}
	return false
}

// valueImmutable: a value of this type carries no state that a later use could mutate — basic
// types, strings and function values (hooks). A pointer, map, slice, channel, interface or
// struct field set once can still be a shared mutable object (a formatter with a buffer).
func valueImmutable(t types.Type) bool {
	switch t.Underlying().(type) {
	case *types.Basic, *types.Signature:
		return true
	}
	return false
}

// atomicOnly: the field is a sync/atomic type, or every use of its address anywhere in the
// module is as an argument of a sync/atomic function (no plain load, no plain store outside a
// struct the storing function has just allocated).
func (r *Run) atomicOnly(sname, field string, t types.Type) bool {
	switch namedOf(t) {
	case "sync/atomic.Int32", "sync/atomic.Int64", "sync/atomic.Uint32", "sync/atomic.Uint64", "sync/atomic.Uintptr", "sync/atomic.Bool":
		// a scalar: there is nothing behind it that could be changed in place (atomic.Value and
		// atomic.Pointer hold a reference — a map kept in one is still written without a lock)
		return true
	}
	n := 0
	for _, fn := range r.P.Funcs {
		for _, ins := range allInstrs(fn) {
			x, ok := ins.(*ssa.FieldAddr)
			if !ok || structOfFieldAddr(x) != sname || fieldOf(x) == nil || fieldOf(x).Name() != field {
				continue
			}
			al, isAl := x.X.(*ssa.Alloc)
			fresh := isAl && al.Parent() == fn
			for _, ref := range *x.Referrers() {
				switch y := ref.(type) {
				case *ssa.DebugRef:
				case ssa.CallInstruction:
					if !strings.HasPrefix(calleeName(y.Common()), "sync/atomic.") {
						return false
					}
					n++
				case *ssa.Store:
					if !(fresh && y.Addr == ssa.Value(x)) {
						return false
					}
				default:
					return false
				}
			}
		}
	}
	return n > 0
}

// constructorOnly: every store to the named field anywhere in the module targets a struct
// allocated in the storing function (composite literal or new), i.e. happens before the
// object can be shared.
func (r *Run) constructorOnly(sname, field string) bool {
	for _, fn := range r.P.Funcs {
		for _, ins := range allInstrs(fn) {
			switch x := ins.(type) {
			case *ssa.FieldAddr:
				if structOfFieldAddr(x) != sname || fieldOf(x) == nil || fieldOf(x).Name() != field {
					continue
				}
				al, isAl := x.X.(*ssa.Alloc)
				fresh := isAl && al.Parent() == fn
				for _, ref := range *x.Referrers() {
					switch y := ref.(type) {
					case *ssa.UnOp, *ssa.DebugRef:
						// a load
					case *ssa.Store:
						if y.Addr == ssa.Value(x) && !fresh {
							return false
						}
						if y.Val == ssa.Value(x) {
							return false // the field's address is kept somewhere
						}
					default:
						// the address of the field leaves the expression (argument of a call,
						// element of a literal, captured, ...): whoever gets it can write through
						// it (second table audit: `count(&cp.served)`)
						if !fresh {
							return false
						}
					}
				}
			case *ssa.Store:
				// the whole struct is overwritten through a pointer: `*cp = CachedPlanner{...}`
				if _, isFA := x.Addr.(*ssa.FieldAddr); isFA {
					continue
				}
				if pt, ok := x.Addr.Type().Underlying().(*types.Pointer); ok && namedOf(pt.Elem()) == sname {
					if al, isAl := x.Addr.(*ssa.Alloc); !isAl || al.Parent() != fn {
						return false
					}
				}
			}
		}
	}
	return true
}
