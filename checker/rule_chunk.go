package main

// Chunk arithmetic, computed: the bounds of a slice in the chunk body of a POS-chunks fan-out
// are read as integer terms over
//
//	i  the chunk index (an element of lo.Range(count)),
//	m  the batch size (the field maxBatchSize of the fan-out's receiver; positive — R7.P6 keeps
//	   the stores into it positive constants),
//	n  the length of the list that is cut (a parameter of the fan-out's function, never
//	   assigned again),
//
// whatever way they were written down: through local variables and captured ones, through the
// parameters of the function the closure delegates to, through module helpers (`minInt(a, b)`,
// `chunkBounds(i, m, n)`, `q.chunkCount(n)`: the helper's results are read with the call's
// arguments in place of its parameters), the builtin min, or a clamp (`if hi > n { hi = n }`).
// The terms are brought to polynomials (m is written 1+m', so "m is positive" is built in) and
// 0 <= low <= high <= n is decided from two kinds of facts: what the payload count says about i
// (count = c + P/m with c <= 1 and P + (c-1)*m <= n gives i*m <= n) and the comparisons that
// decide whether the slice expression is reached at all.

import (
	"fmt"
	"go/constant"
	"go/token"
	"go/types"
	"sort"
	"strings"

	"golang.org/x/tools/go/ssa"
)

type cterm struct {
	op   string // const i m n + - * / min either ?
	k    int64
	x, y *cterm
	v    ssa.Value
	in   *ssa.Call // for "?": the call inside which v was read (nil: the chunk body or the fan-out's function)
}

func (t *cterm) String() string {
	switch t.op {
	case "const":
		return fmt.Sprint(t.k)
	case "i", "m", "n":
		return t.op
	case "+", "-", "*", "/":
		return "(" + t.x.String() + " " + t.op + " " + t.y.String() + ")"
	case "min":
		return "min(" + t.x.String() + ", " + t.y.String() + ")"
	case "either":
		return "either(" + t.x.String() + ", " + t.y.String() + ")"
	}
	return "?"
}

// show prints a term without the outermost brackets.
func (t *cterm) show() string {
	s := t.String()
	if strings.HasPrefix(s, "(") && strings.HasSuffix(s, ")") && (t.op == "+" || t.op == "-" || t.op == "*" || t.op == "/") {
		return s[1 : len(s)-1]
	}
	return s
}

// cframe: where a value is read. A function entered through a call knows the call (its
// parameters are the call's arguments, read in the caller's frame); a closure knows the frame
// of the function it was made in (its free variables are that function's cells).
type cframe struct {
	fn     *ssa.Function
	call   *ssa.Call
	caller *cframe
	lex    *cframe
}

type cmono struct {
	coef  int64
	atoms []string
}

type cpoly map[string]*cmono

type catom struct {
	kind   string // i m' n quo min either ?
	a, b   cpoly
	nonneg bool
}

type chunkEval struct {
	r     *Run
	site  *ssa.Function // the function of the fan-out
	mapF  *ssa.Function // its per-chunk closure
	list  *ssa.Parameter
	atoms map[string]*catom
	steps int
}

// canon follows v to where its number comes from: single-assignment cells (the store
// dominating the read), cells captured by the closure (the store dominating the point the
// closure is made), parameters of a function entered through a known call.
func (ce *chunkEval) canon(v ssa.Value, f *cframe) (ssa.Value, *cframe) {
	for n := 0; n < 24; n++ {
		v = unwrap(v)
		switch x := v.(type) {
		case *ssa.UnOp:
			if x.Op != token.MUL {
				return v, f
			}
			switch a := x.X.(type) {
			case *ssa.Alloc:
				sts := storesTo(a)
				if len(sts) != 1 || sts[0].Parent() != x.Parent() || !instrDominates(sts[0], x) || !cellPrivate(a) {
					return v, f
				}
				v = sts[0].Val
				continue
			case *ssa.FreeVar:
				if f == nil || f.lex == nil || f.fn != x.Parent() {
					return v, f
				}
				var mc *ssa.MakeClosure
				nmc := 0
				for _, ins := range allInstrs(f.lex.fn) {
					if m, ok := ins.(*ssa.MakeClosure); ok && m.Fn == ssa.Value(f.fn) {
						mc = m
						nmc++
					}
				}
				if nmc != 1 {
					return v, f
				}
				var cell *ssa.Alloc
				for k, fv := range f.fn.FreeVars {
					if fv == a && k < len(mc.Bindings) {
						cell, _ = mc.Bindings[k].(*ssa.Alloc)
					}
				}
				if cell == nil {
					return v, f
				}
				sts := storesTo(cell)
				if len(sts) != 1 || sts[0].Parent() != f.lex.fn || !instrDominates(sts[0], mc) || !cellPrivate(cell) {
					return v, f
				}
				v, f = sts[0].Val, f.lex
				continue
			}
			return v, f
		case *ssa.Parameter:
			if f == nil || f.call == nil || f.fn != x.Parent() {
				return v, f
			}
			k := -1
			for i, p := range f.fn.Params {
				if p == x {
					k = i
				}
			}
			if k < 0 || k >= len(f.call.Call.Args) {
				return v, f
			}
			v, f = f.call.Call.Args[k], f.caller
			continue
		}
		return v, f
	}
	return v, f
}

// cellPrivate: the variable cell is only read and written in place — by its function and the
// closures that capture it; its address is handed to nobody who could write it unseen.
func cellPrivate(a *ssa.Alloc) bool {
	var ok func(cell ssa.Value, depth int) bool
	ok = func(cell ssa.Value, depth int) bool {
		if cell.Referrers() == nil || depth > 4 {
			return false
		}
		for _, ref := range *cell.Referrers() {
			switch x := ref.(type) {
			case *ssa.DebugRef:
			case *ssa.UnOp:
				if x.Op != token.MUL {
					return false
				}
			case *ssa.Store:
				if x.Val == cell {
					return false
				}
			case *ssa.MakeClosure:
				cf, isFn := x.Fn.(*ssa.Function)
				if !isFn {
					return false
				}
				for i, b := range x.Bindings {
					if b == cell && (i >= len(cf.FreeVars) || !ok(cf.FreeVars[i], depth+1)) {
						return false
					}
				}
			default:
				return false
			}
		}
		return true
	}
	return ok(a, 0)
}

func isIntType(t types.Type) bool {
	b, ok := t.Underlying().(*types.Basic)
	return ok && b.Info()&types.IsInteger != 0
}

// opaque: a number the terms do not describe. The same instruction read inside two different
// calls of a helper is two numbers.
func (ce *chunkEval) opaque(v ssa.Value, f *cframe) *cterm {
	t := &cterm{op: "?", v: v}
	if f != nil {
		t.in = f.call
	}
	return t
}

func (ce *chunkEval) eval(v ssa.Value, f *cframe, depth int) *cterm {
	ce.steps++
	if depth > 8 || ce.steps > 400 || f == nil {
		return ce.opaque(v, f)
	}
	v, f = ce.canon(v, f)
	if f == nil {
		return ce.opaque(v, f)
	}
	if len(ce.mapF.Params) == 1 && v == ssa.Value(ce.mapF.Params[0]) {
		return &cterm{op: "i"}
	}
	switch x := v.(type) {
	case *ssa.Const:
		if x.Value != nil && x.Value.Kind() == constant.Int && isIntType(x.Type()) {
			if k, ok := constant.Int64Val(x.Value); ok && k > -1<<31 && k < 1<<31 {
				return &cterm{op: "const", k: k}
			}
		}
	case *ssa.BinOp:
		var op string
		switch x.Op {
		case token.ADD:
			op = "+"
		case token.SUB:
			op = "-"
		case token.MUL:
			op = "*"
		case token.QUO:
			op = "/"
		}
		if op != "" && isIntType(x.Type()) {
			return &cterm{op: op, x: ce.eval(x.X, f, depth+1), y: ce.eval(x.Y, f, depth+1)}
		}
	case *ssa.UnOp:
		if x.Op == token.MUL {
			if fa, ok := x.X.(*ssa.FieldAddr); ok && fieldOf(fa) != nil && fieldOf(fa).Name() == "maxBatchSize" && ce.site.Signature.Recv() != nil && len(ce.site.Params) > 0 {
				if rv, _ := ce.canon(fa.X, f); rv == ssa.Value(ce.site.Params[0]) {
					return &cterm{op: "m"}
				}
			}
		}
	case *ssa.Call:
		if b, ok := x.Call.Value.(*ssa.Builtin); ok {
			switch {
			case b.Name() == "len" && len(x.Call.Args) == 1:
				if lv, _ := ce.canon(x.Call.Args[0], f); lv == ssa.Value(ce.list) {
					return &cterm{op: "n"}
				}
			case b.Name() == "min" && len(x.Call.Args) == 2 && isIntType(x.Type()):
				return &cterm{op: "min", x: ce.eval(x.Call.Args[0], f, depth+1), y: ce.eval(x.Call.Args[1], f, depth+1)}
			}
			return ce.opaque(v, f)
		}
		if t := ce.evalResult(x, 0, f, depth); t != nil {
			return t
		}
	case *ssa.Extract:
		if c, ok := x.Tuple.(*ssa.Call); ok {
			if t := ce.evalResult(c, x.Index, f, depth); t != nil {
				return t
			}
		}
	case *ssa.Phi:
		if t := ce.evalPhi(x, f, depth); t != nil {
			return t
		}
	}
	return ce.opaque(v, f)
}

// evalResult: the k-th result of a call of a module function, read inside the callee with the
// call's arguments for its parameters. A callee with two returns on the two sides of one test
// hands back one or the other.
func (ce *chunkEval) evalResult(c *ssa.Call, k int, f *cframe, depth int) *cterm {
	sc := c.Call.StaticCallee()
	if sc == nil {
		return nil
	}
	d := ce.r.P.declared(sc)
	if d == nil || !inModule(d) || d.Blocks == nil || d.Parent() != nil || len(d.Params) != len(c.Call.Args) {
		return nil
	}
	for g := f; g != nil; g = g.caller {
		if g.fn == d {
			return nil
		}
	}
	inner := &cframe{fn: d, call: c, caller: f}
	rets := returnsOf(d)
	val := func(ret *ssa.Return) *cterm {
		vals := retVals(ret)
		if k >= len(vals) || !isIntType(vals[k].Type()) {
			return nil
		}
		return ce.eval(vals[k], inner, depth+1)
	}
	switch len(rets) {
	case 1:
		return val(rets[0])
	case 2:
		for _, b := range d.Blocks {
			iff, ok := b.Instrs[len(b.Instrs)-1].(*ssa.If)
			if !ok {
				continue
			}
			on := func(s *ssa.BasicBlock, ret *ssa.Return) bool {
				return len(s.Preds) == 1 && (s == ret.Block() || s.Dominates(ret.Block()))
			}
			var t, e *ssa.Return
			switch {
			case on(b.Succs[0], rets[0]) && on(b.Succs[1], rets[1]):
				t, e = rets[0], rets[1]
			case on(b.Succs[0], rets[1]) && on(b.Succs[1], rets[0]):
				t, e = rets[1], rets[0]
			default:
				continue
			}
			tv, ev := val(t), val(e)
			if tv == nil || ev == nil {
				return nil
			}
			return ce.choice(iff.Cond, tv, ev, inner, depth)
		}
	}
	return nil
}

// evalPhi: a value that is one of two, decided by the test that ends the dominating block.
func (ce *chunkEval) evalPhi(phi *ssa.Phi, f *cframe, depth int) *cterm {
	if len(phi.Edges) != 2 || !isIntType(phi.Type()) {
		return nil
	}
	b := phi.Block()
	d := b.Idom()
	if d == nil || len(d.Instrs) == 0 {
		return nil
	}
	iff, ok := d.Instrs[len(d.Instrs)-1].(*ssa.If)
	if !ok || d.Succs[0] == d.Succs[1] {
		return nil
	}
	side := func(p *ssa.BasicBlock) int {
		for s := 0; s < 2; s++ {
			succ := d.Succs[s]
			if p == d && succ == b {
				return s
			}
			if succ != b && len(succ.Preds) == 1 && (succ == p || succ.Dominates(p)) {
				return s
			}
		}
		return -1
	}
	s0, s1 := side(b.Preds[0]), side(b.Preds[1])
	if s0 < 0 || s1 < 0 || s0 == s1 {
		return nil
	}
	t, e := phi.Edges[0], phi.Edges[1]
	if s0 == 1 {
		t, e = e, t
	}
	return ce.choice(iff.Cond, ce.eval(t, f, depth+1), ce.eval(e, f, depth+1), f, depth)
}

// choice: `cond ? t : e`. When cond compares the two alternatives themselves and picks the
// smaller one this is min; otherwise all that is known is that it is one of them.
func (ce *chunkEval) choice(cond ssa.Value, t, e *cterm, f *cframe, depth int) *cterm {
	for {
		u, ok := cond.(*ssa.UnOp)
		if !ok || u.Op != token.NOT {
			break
		}
		cond, t, e = u.X, e, t
	}
	if bo, ok := cond.(*ssa.BinOp); ok && isIntType(bo.X.Type()) {
		l, r := ce.eval(bo.X, f, depth+1), ce.eval(bo.Y, f, depth+1)
		same := func(a, b *cterm) bool { return polyKey(ce.poly(a)) == polyKey(ce.poly(b)) }
		switch bo.Op {
		case token.GTR, token.GEQ:
			if same(t, r) && same(e, l) {
				return &cterm{op: "min", x: l, y: r}
			}
		case token.LSS, token.LEQ:
			if same(t, l) && same(e, r) {
				return &cterm{op: "min", x: l, y: r}
			}
		}
	}
	return &cterm{op: "either", x: t, y: e}
}

// ---- polynomials ----

func monoKey(atoms []string) string { return strings.Join(atoms, "\x00") }

func (p cpoly) add(coef int64, atoms []string) {
	if coef == 0 {
		return
	}
	a := append([]string{}, atoms...)
	sort.Strings(a)
	k := monoKey(a)
	if m := p[k]; m != nil {
		m.coef += coef
		if m.coef == 0 {
			delete(p, k)
		}
		return
	}
	p[k] = &cmono{coef, a}
}

func polyAdd(a, b cpoly, sign int64) cpoly {
	out := cpoly{}
	for _, m := range a {
		out.add(m.coef, m.atoms)
	}
	for _, m := range b {
		out.add(sign*m.coef, m.atoms)
	}
	return out
}

func polyMul(a, b cpoly) cpoly {
	out := cpoly{}
	for _, x := range a {
		for _, y := range b {
			out.add(x.coef*y.coef, append(append([]string{}, x.atoms...), y.atoms...))
		}
	}
	return out
}

func polyKey(p cpoly) string {
	var parts []string
	for _, m := range p {
		parts = append(parts, fmt.Sprintf("%d·%s", m.coef, strings.Join(m.atoms, "·")))
	}
	sort.Strings(parts)
	return "[" + strings.Join(parts, " + ") + "]"
}

func (ce *chunkEval) atom(key string, a *catom) cpoly {
	if ce.atoms[key] == nil {
		ce.atoms[key] = a
	}
	p := cpoly{}
	p.add(1, []string{key})
	return p
}

func (ce *chunkEval) nonneg(p cpoly) bool {
	for _, m := range p {
		if m.coef < 0 {
			return false
		}
		for _, a := range m.atoms {
			if at := ce.atoms[a]; at == nil || !at.nonneg {
				return false
			}
		}
	}
	return true
}

func (ce *chunkEval) poly(t *cterm) cpoly {
	switch t.op {
	case "const":
		p := cpoly{}
		p.add(t.k, nil)
		return p
	case "i", "n":
		return ce.atom(t.op, &catom{kind: t.op, nonneg: true})
	case "m":
		p := ce.atom("m'", &catom{kind: "m'", nonneg: true})
		p.add(1, nil)
		return p
	case "+":
		return polyAdd(ce.poly(t.x), ce.poly(t.y), 1)
	case "-":
		return polyAdd(ce.poly(t.x), ce.poly(t.y), -1)
	case "*":
		return polyMul(ce.poly(t.x), ce.poly(t.y))
	case "/":
		a, b := ce.poly(t.x), ce.poly(t.y)
		return ce.atom("quo("+polyKey(a)+";"+polyKey(b)+")", &catom{kind: "quo", a: a, b: b, nonneg: ce.nonneg(a) && ce.nonneg(b)})
	case "min", "either":
		a, b := ce.poly(t.x), ce.poly(t.y)
		ka, kb := polyKey(a), polyKey(b)
		if ka == kb {
			return a
		}
		if kb < ka {
			a, b, ka, kb = b, a, kb, ka
		}
		return ce.atom(t.op+"("+ka+","+kb+")", &catom{kind: t.op, a: a, b: b, nonneg: ce.nonneg(a) && ce.nonneg(b)})
	}
	name := "nil"
	if t.v != nil {
		name = fmt.Sprintf("%s@%p/%p", t.v.Name(), t.v, t.in)
	}
	return ce.atom("?"+name, &catom{kind: "?"})
}

// cfact: a <= b is known.
type cfact struct{ a, b cpoly }

// le decides a <= b from the facts: b - a, or b - a less the slack of one fact, is a
// polynomial with no negative coefficient over quantities that are not negative.
func (ce *chunkEval) le(a, b *cterm, facts []cfact) bool {
	if b.op == "min" || b.op == "either" {
		return ce.le(a, b.x, facts) && ce.le(a, b.y, facts)
	}
	if a.op == "min" {
		return ce.le(a.x, b, facts) || ce.le(a.y, b, facts)
	}
	if a.op == "either" {
		return ce.le(a.x, b, facts) && ce.le(a.y, b, facts)
	}
	d := polyAdd(ce.poly(b), ce.poly(a), -1)
	if ce.nonneg(d) {
		return true
	}
	for _, f := range facts {
		if ce.nonneg(polyAdd(d, polyAdd(f.b, f.a, -1), -1)) {
			return true
		}
	}
	return false
}

// countFact: what drawing i from lo.Range(count) says. count = c + P/m with 0 <= c <= 1,
// P >= 0 and P + (c-1)*m <= n: then count >= 0 (the range counts upwards from 0) and
// i <= count-1, so i*m <= (c-1)*m + (P/m)*m <= (c-1)*m + P <= n.
func (ce *chunkEval) countFact(count *cterm) (cfact, string, bool) {
	p := ce.poly(count)
	var c int64
	var quo *catom
	for _, m := range p {
		switch {
		case len(m.atoms) == 0:
			c = m.coef
		case len(m.atoms) == 1 && m.coef == 1 && quo == nil && ce.atoms[m.atoms[0]] != nil && ce.atoms[m.atoms[0]].kind == "quo":
			quo = ce.atoms[m.atoms[0]]
		default:
			return cfact{}, "", false
		}
	}
	mp := ce.poly(&cterm{op: "m"})
	if quo == nil || c < 0 || c > 1 || polyKey(quo.b) != polyKey(mp) || !ce.nonneg(quo.a) {
		return cfact{}, "", false
	}
	np := ce.poly(&cterm{op: "n"})
	bound := quo.a
	if c == 0 {
		bound = polyAdd(bound, mp, -1)
	}
	if !ce.nonneg(polyAdd(np, bound, -1)) {
		return cfact{}, "", false
	}
	im := ce.poly(&cterm{op: "*", x: &cterm{op: "i"}, y: &cterm{op: "m"}})
	return cfact{im, np}, count.show(), true
}

// pathFacts: the integer comparisons that decide whether block b is reached.
func (ce *chunkEval) pathFacts(b *ssa.BasicBlock, f *cframe) []cfact {
	var out []cfact
	for d := b.Idom(); d != nil; d = d.Idom() {
		if len(d.Instrs) == 0 {
			continue
		}
		iff, ok := d.Instrs[len(d.Instrs)-1].(*ssa.If)
		if !ok || d.Succs[0] == d.Succs[1] {
			continue
		}
		side := -1
		for s := 0; s < 2; s++ {
			if succ := d.Succs[s]; len(succ.Preds) == 1 && (succ == b || succ.Dominates(b)) {
				side = s
			}
		}
		if side < 0 {
			continue
		}
		cond, holds := iff.Cond, side == 0
		for {
			u, ok := cond.(*ssa.UnOp)
			if !ok || u.Op != token.NOT {
				break
			}
			cond, holds = u.X, !holds
		}
		bo, ok := cond.(*ssa.BinOp)
		if !ok || !isIntType(bo.X.Type()) {
			continue
		}
		l, r := ce.poly(ce.eval(bo.X, f, 0)), ce.poly(ce.eval(bo.Y, f, 0))
		one := cpoly{}
		one.add(1, nil)
		op := bo.Op
		if !holds {
			switch op {
			case token.GTR:
				op = token.LEQ
			case token.GEQ:
				op = token.LSS
			case token.LSS:
				op = token.GEQ
			case token.LEQ:
				op = token.GTR
			default:
				continue
			}
		}
		switch op {
		case token.LEQ:
			out = append(out, cfact{l, r})
		case token.LSS:
			out = append(out, cfact{polyAdd(l, one, 1), r})
		case token.GEQ:
			out = append(out, cfact{r, l})
		case token.GTR:
			out = append(out, cfact{polyAdd(r, one, 1), l})
		}
	}
	return out
}

// proveChunkSlice: sl sits in fn, the chunk body of the fan-out call in site (the closure mapF
// itself, or the function it hands its index to through the call `entry`).
func (r *Run) proveChunkSlice(site *ssa.Function, call *ssa.Call, mapF, fn *ssa.Function, sl *ssa.Slice) (string, bool) {
	ce := &chunkEval{r: r, site: site, mapF: mapF, atoms: map[string]*catom{}}
	siteF := &cframe{fn: site}
	mapFr := &cframe{fn: mapF, lex: siteF}
	fr := mapFr
	if fn != mapF {
		var entry *ssa.Call
		n := 0
		for _, ins := range allInstrs(mapF) {
			if c, ok := ins.(*ssa.Call); ok {
				if sc := c.Call.StaticCallee(); sc != nil && r.P.declared(sc) == fn {
					entry = c
					n++
				}
			}
		}
		if n != 1 || len(entry.Call.Args) != len(fn.Params) {
			return "", false
		}
		// and through nothing else: what the parameters hold is what this call hands in
		for _, e := range r.P.CG.In[fn] {
			if e.Site != ssa.CallInstruction(entry) {
				return "", false
			}
		}
		fr = &cframe{fn: fn, call: entry, caller: mapFr}
	}
	// the list that is cut: a parameter of the fan-out's function, assigned once
	lv, _ := ce.canon(sl.X, fr)
	lp, ok := lv.(*ssa.Parameter)
	if !ok || lp.Parent() != site {
		return "", false
	}
	if _, isSlice := lp.Type().Underlying().(*types.Slice); !isSlice {
		return "", false
	}
	ce.list = lp
	// the payload: lo.Range(count)
	rc, ok := unwrap(call.Call.Args[0]).(*ssa.Call)
	if !ok || !strings.HasSuffix(strings.SplitN(calleeName(&rc.Call), "[", 2)[0], "lo.Range") || len(rc.Call.Args) != 1 {
		return "", false
	}
	count := ce.eval(rc.Call.Args[0], siteF, 0)
	fact, countStr, ok := ce.countFact(count)
	if !ok {
		return "", false
	}
	facts := append([]cfact{fact}, ce.pathFacts(sl.Block(), fr)...)
	n := &cterm{op: "n"}
	low := &cterm{op: "const"}
	if sl.Low != nil {
		low = ce.eval(sl.Low, fr, 0)
	}
	high := n
	if sl.High != nil {
		high = ce.eval(sl.High, fr, 0)
	}
	if !ce.le(&cterm{op: "const"}, low, facts) || !ce.le(low, high, facts) || !ce.le(high, n, facts) {
		return "", false
	}
	why := "chunk arithmetic, computed with i the chunk index, m = maxBatchSize (positive) and n the length of the list that is cut: i is drawn from lo.Range(" + countStr + "), so i*m <= n; "
	if len(facts) > 1 {
		why += "with the tests that lead here, "
	}
	why += "0 <= " + low.show() + " <= " + high.show() + " <= n"
	return why, true
}
