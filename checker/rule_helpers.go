package main

// R13a/R13b — helper synthesis and registration (C01, C02):
//  R13b the only fields the planner synthesises are id, __typename and node
//  R13a every synthesis of an id/__typename helper is reported by its caller in a list of
//       added names, and every caller of that function hands the list to ScrubFields.Set

import (
	"go/constant"
	"go/token"
	"go/types"
	"strings"

	"golang.org/x/tools/go/ssa"
)

// synthesizedFieldName: fn allocates an ast.Field literal and stores a constant Name.
func synthesizedFieldNames(fn *ssa.Function) []string {
	var out []string
	for _, ins := range allInstrs(fn) {
		st, ok := ins.(*ssa.Store)
		if !ok {
			continue
		}
		fa, ok := st.Addr.(*ssa.FieldAddr)
		if !ok || fieldOf(fa) == nil || fieldOf(fa).Name() != "Name" || namedOf(fa.X.Type()) != "github.com/vektah/gqlparser/v2/ast.Field" {
			continue
		}
		if _, fresh := fa.X.(*ssa.Alloc); !fresh {
			continue
		}
		if k, ok := st.Val.(*ssa.Const); ok && k.Value != nil && k.Value.Kind() == constant.String {
			out = append(out, constant.StringVal(k.Value))
		} else {
			out = append(out, "?")
		}
	}
	return out
}

func ruleHelperRegistration(r *Run) {
	const rule = "R13a"
	// R13b
	synth := map[*ssa.Function][]string{}
	n := 0
	for _, fn := range r.P.Funcs {
		if topFn(fn).Pkg == nil || !strings.HasPrefix(topFn(fn).Pkg.Pkg.Path(), modPath) {
			continue
		}
		names := synthesizedFieldNames(fn)
		if len(names) == 0 {
			continue
		}
		for _, nm := range names {
			n++
			switch nm {
			case "id", "__typename":
				synth[fn] = append(synth[fn], nm)
				r.OK("R13b", fnName(fn), "synthesised field "+nm, r.P.pos(fn.Pos()), "helper field; its registration is checked by R13a")
			case "node":
				r.OK("R13b", fnName(fn), "synthesised field "+nm, r.P.pos(fn.Pos()), "the node(id:) wrapper of child steps: unwrapped again by the executor (parseRespones)")
			default:
				r.Bad("R13b", fnName(fn), "synthesised field "+nm, r.P.pos(fn.Pos()), "production code builds a selection field named `"+nm+"` that the client did not ask for; only id, __typename and the node wrapper are known to be removed/unwrapped before the response")
			}
		}
	}
	r.AtLeast("R13b", "synthesised fields", n, 3)

	isSetCall := func(i ssa.Instruction) (*ssa.CallCommon, bool) {
		ci, ok := i.(ssa.CallInstruction)
		if !ok || !strings.HasSuffix(calleeName(ci.Common()), "planner.ScrubFields).Set") {
			return nil, false
		}
		return ci.Common(), true
	}
	// registers(fn, v): the []string value v (in fn) has its elements passed as field name to
	// ScrubFields.Set, directly or through a callee's parameter.
	var registers func(v ssa.Value, depth int) bool
	registers = func(v ssa.Value, depth int) bool {
		if depth > 3 || v.Referrers() == nil {
			return false
		}
		for _, ref := range *v.Referrers() {
			switch x := ref.(type) {
			case *ssa.IndexAddr: // range over the slice: element loads
				for _, r2 := range *x.Referrers() {
					if ld, ok := r2.(*ssa.UnOp); ok && ld.Op == token.MUL {
						for _, r3 := range *ld.Referrers() {
							if c, ok := isSetCall(r3); ok && len(c.Args) == 4 && c.Args[3] == ssa.Value(ld) {
								return true
							}
						}
					}
				}
			case ssa.CallInstruction:
				// passed on to a module function: its parameter must register
				for _, e := range r.P.CG.Out[x.Parent()] {
					if e.Site != x || e.Kind != "static" {
						continue
					}
					for i, a := range x.Common().Args {
						if a == v && i < len(e.Callee.Params) && registers(e.Callee.Params[i], depth+1) {
							return true
						}
					}
				}
			case *ssa.Phi:
				if registers(x, depth+1) {
					return true
				}
			case *ssa.Store:
				// spilled into a local cell: loads of it
				if al, ok := x.Addr.(*ssa.Alloc); ok {
					for _, i2 := range allInstrs(al.Parent()) {
						if ld, ok := i2.(*ssa.UnOp); ok && ld.Op == token.MUL && ld.X == ssa.Value(al) && registers(ld, depth+1) {
							return true
						}
					}
				}
			}
		}
		return false
	}
	// registersName: the string value v (one added name) is passed as field name to
	// ScrubFields.Set — directly, through a one-element list, or through a callee's parameter.
	var registersName func(v ssa.Value, depth int) bool
	registersName = func(v ssa.Value, depth int) bool {
		if depth > 3 || v.Referrers() == nil {
			return false
		}
		for _, ref := range *v.Referrers() {
			switch x := ref.(type) {
			case *ssa.Store:
				if x.Val != v {
					continue
				}
				switch a := x.Addr.(type) {
				case *ssa.IndexAddr: // `[]string{added}`: the array is sliced and handed on
					if al, ok := a.X.(*ssa.Alloc); ok {
						for _, r2 := range *al.Referrers() {
							if sl, ok := r2.(*ssa.Slice); ok && registers(sl, depth+1) {
								return true
							}
						}
					}
				case *ssa.Alloc:
					for _, i2 := range allInstrs(a.Parent()) {
						if ld, ok := i2.(*ssa.UnOp); ok && ld.Op == token.MUL && ld.X == ssa.Value(a) && registersName(ld, depth+1) {
							return true
						}
					}
				}
			case ssa.CallInstruction:
				if c, ok := isSetCall(x); ok && len(c.Args) == 4 && c.Args[3] == v {
					return true
				}
				for _, e := range r.P.CG.Out[x.Parent()] {
					if e.Site != x || e.Kind != "static" {
						continue
					}
					for i, a := range x.Common().Args {
						if a == v && i < len(e.Callee.Params) && registersName(e.Callee.Params[i], depth+1) {
							return true
						}
					}
				}
			}
		}
		return false
	}
	// R13a.flow: a set of registrations that a callee hands back is not dropped — it is merged,
	// returned or otherwise used by whoever asked for it
	nf := 0
	for _, fn := range r.P.Funcs {
		if topFn(fn).Pkg == nil || topFn(fn).Pkg.Pkg.Path() != plannerPkg {
			continue
		}
		for _, ins := range allInstrs(fn) {
			c, ok := ins.(*ssa.Call)
			if !ok {
				continue
			}
			sc := c.Call.StaticCallee()
			if sc == nil || c.Call.IsInvoke() || !inModule(sc) {
				continue
			}
			res := sc.Signature.Results()
			for i := 0; i < res.Len(); i++ {
				if namedOf(res.At(i).Type()) != plannerPkg+".ScrubFields" {
					continue
				}
				nf++
				used := false
				for _, ref := range *c.Referrers() {
					if _, dbg := ref.(*ssa.DebugRef); dbg {
						continue
					}
					if res.Len() == 1 {
						used = true
						continue
					}
					if ex, ok := ref.(*ssa.Extract); ok && ex.Index == i {
						for _, r2 := range *ex.Referrers() {
							if _, dbg := r2.(*ssa.DebugRef); !dbg {
								used = true
							}
						}
					}
				}
				r.Check(used, "R13a.flow", fnName(fn), "uses the registrations returned by "+fnName(sc), r.P.pos(c.Pos()),
					"the returned ScrubFields is merged or handed on", "the helper registrations that "+fnName(sc)+" returns are thrown away here: the helpers it added below this point (fields inside a fragment) are fetched for stitching but never reach the plan's ScrubFields, so they stay in the client's response")
			}
		}
	}
	r.AtLeast("R13a.flow", "calls that return ScrubFields", nf, 3)

	m := 0
	for s, names := range synth {
		for _, e := range r.P.CG.In[s] {
			if e.Kind != "static" {
				continue
			}
			g := e.Caller
			m++
			site := r.P.pos(e.Site.Pos())
			name := names[0]
			// (a) g reports the addition: it has a []string result and appends the constant name after the call
			resIdx := -1
			for i := 0; i < g.Signature.Results().Len(); i++ {
				if shortType(g.Signature.Results().At(i).Type()) == "[]string" {
					resIdx = i
				}
			}
			reported := false
			if resIdx >= 0 {
				for _, ins := range allInstrs(g) {
					c, ok := ins.(*ssa.Call)
					if !ok {
						continue
					}
					if b, isB := c.Call.Value.(*ssa.Builtin); !isB || b.Name() != "append" {
						continue
					}
					if !instrDominates(e.Site, c) && !(e.Site.Block() == c.Block()) {
						continue
					}
					if dependsOnConstString(c.Call.Args[1], name) {
						reported = true
					}
				}
			}
			// (a') or g reports each addition to a callback it was given: register(name) after the call
			cbIdx := -1
			if !reported {
				for i, p := range g.Params {
					sig, isSig := p.Type().Underlying().(*types.Signature)
					if !isSig || sig.Params().Len() != 1 || shortType(sig.Params().At(0).Type()) != "string" {
						continue
					}
					for _, ref := range *p.Referrers() {
						c, ok := ref.(*ssa.Call)
						if !ok || c.Call.Value != ssa.Value(p) || len(c.Call.Args) != 1 {
							continue
						}
						if !instrDominates(e.Site, c) && !(e.Site.Block() == c.Block()) {
							continue
						}
						if dependsOnConstString(c.Call.Args[0], name) {
							cbIdx = i
						}
					}
				}
			}
			if cbIdx >= 0 {
				r.OK(rule, fnName(g), "reports added "+name, site, "the added name is reported to the callback the caller supplied")
				for _, e2 := range r.P.CG.In[g] {
					if e2.Kind != "static" || cbIdx >= len(e2.Site.Common().Args) {
						continue
					}
					fs, unknown := r.P.CG.funcValues(e2.Site.Common().Args[cbIdx], map[ssa.Value]bool{})
					okReg := len(fs) > 0 && unknown == ""
					for _, f := range fs {
						if len(f.Params) != 1 || !registersName(f.Params[0], 0) {
							okReg = false
						}
					}
					r.Check(okReg, rule, fnName(e2.Caller), "registers helpers added by "+fnName(g), r.P.pos(e2.Site.Pos()),
						"the callback hands every added helper name to ScrubFields.Set", "the helpers added by "+fnName(g)+" are not registered with ScrubFields at this call (the callback it is given does not pass the name to ScrubFields.Set): they would not be removed from the response")
				}
				continue
			}
			if !reported {
				r.Bad(rule, fnName(g), "reports added "+name, site, "a helper `"+name+"` field is added to a selection set here, but the function does not report the addition to its caller (no list of added names containing it): nobody can register it with ScrubFields, so the helper value fetched for stitching stays in the client's response")
				continue
			}
			r.OK(rule, fnName(g), "reports added "+name, site, "the added name is appended to the returned list of added fields")
			// (b) every caller of g registers the list
			for _, e2 := range r.P.CG.In[g] {
				if e2.Kind != "static" {
					continue
				}
				call, ok := e2.Site.(*ssa.Call)
				if !ok {
					continue
				}
				var lst ssa.Value
				for _, ref := range *call.Referrers() {
					if ex, ok := ref.(*ssa.Extract); ok && ex.Index == resIdx {
						lst = ex
					}
				}
				okReg := lst != nil && registers(lst, 0)
				r.Check(okReg, rule, fnName(e2.Caller), "registers helpers added by "+fnName(g), r.P.pos(call.Pos()),
					"the list of added helper names is handed to ScrubFields.Set", "the helpers added by "+fnName(g)+" are not registered with ScrubFields at this call: they would not be removed from the response")
			}
		}
	}
	r.AtLeast(rule, "helper synthesis call sites", m, 3)
}

func dependsOnConstString(v ssa.Value, s string) bool {
	seen := map[ssa.Value]bool{}
	var f func(v ssa.Value) bool
	f = func(v ssa.Value) bool {
		if seen[v] {
			return false
		}
		seen[v] = true
		if k, ok := v.(*ssa.Const); ok && k.Value != nil && k.Value.Kind() == constant.String && constant.StringVal(k.Value) == s {
			return true
		}
		if sl, ok := v.(*ssa.Slice); ok {
			if al, ok := sl.X.(*ssa.Alloc); ok {
				for _, ref := range *al.Referrers() {
					if ia, ok := ref.(*ssa.IndexAddr); ok {
						for _, r2 := range *ia.Referrers() {
							if st, ok := r2.(*ssa.Store); ok && f(st.Val) {
								return true
							}
						}
					}
				}
			}
		}
		ins, ok := v.(ssa.Instruction)
		if !ok {
			return false
		}
		for _, op := range operandsOf(ins) {
			if f(op) {
				return true
			}
		}
		return false
	}
	return f(v)
}
