package main

// Rules added after the second round of seeded changes (DESIGN §11).

import (
	"fmt"
	"go/constant"
	"go/token"
	"go/types"
	"sort"
	"strings"

	"golang.org/x/tools/go/ssa"
)

// ruleForwardedVariables (R13k.vars): a step variable is forwarded only when the client
// supplied it (comma-ok lookup, ok side). Forwarding absent variables as nulls changes the
// size of the variables map, which is what the de-duplication gate looks at.
func ruleForwardedVariables(r *Run) {
	const rule = "R13k.vars"
	fn := r.Anchor(rule, "executor.(*DepthExecutor).getVariables")
	if fn == nil {
		return
	}
	n := 0
	for _, ins := range allInstrs(fn) {
		mu, ok := ins.(*ssa.MapUpdate)
		if !ok {
			continue
		}
		// value taken from the request's variables — directly, or through a call/conversion
		lk, via := variableSource(mu.Value, 0)
		if lk == nil || !dependsOnField(lk.X, "Variables") {
			continue
		}
		r.Check(via == "", "R13k.same", fnName(fn), "client variable forwarded unchanged", r.P.pos(mu.Pos()),
			"the value stored into the sub-request's variables is the very value looked up in the client's variables",
			"the client's variable value passes through "+via+" on its way into the sub-request: the value is no longer the object the request parser produced — an upload (recognised downstream by its Go type *requests.Upload) nested in it is turned into plain data and the file is never sent; numbers and nulls can change representation")
		n++
		good := false
		if lk.CommaOk {
			for _, ref := range *lk.Referrers() {
				if ex, ok := ref.(*ssa.Extract); ok && ex.Index == 1 {
					for _, r2 := range *ex.Referrers() {
						if iff, ok := r2.(*ssa.If); ok {
							s := iff.Block().Succs[0]
							if len(s.Preds) == 1 && (s == mu.Block() || s.Dominates(mu.Block())) {
								good = true
							}
						}
					}
				}
			}
		}
		// … and every supplied variable is forwarded: no further condition between the ok side
		// and the copy (an explicit null is a value; dropping it makes the service apply the
		// argument's default instead)
		if good && lk.CommaOk {
			for _, ref := range *lk.Referrers() {
				ex, ok := ref.(*ssa.Extract)
				if !ok || ex.Index != 1 {
					continue
				}
				for _, r2 := range *ex.Referrers() {
					iff, ok := r2.(*ssa.If)
					if !ok {
						continue
					}
					okSide := iff.Block().Succs[0]
					loop := innermostLoop(mu.Block())
					var header *ssa.BasicBlock
					for b := range loop {
						for _, p := range b.Preds {
							if !loop[p] {
								header = b
							}
						}
					}
					if header != nil {
						all, _ := mustPassUntil(okSide, header, func(i ssa.Instruction) bool { return i == ssa.Instruction(mu) })
						r.Check(all, "R13k.all", fnName(fn), "every supplied client variable is forwarded", r.P.pos(mu.Pos()),
							"every path from `the client supplied it` to the next variable copies the value",
							"a variable the client supplied is forwarded only under a further condition (e.g. only when it is not null): an explicit null is a value of its own — leaving it out makes the service fall back to the argument's default, so the answer differs from a single server's")
					}
				}
			}
		}
		r.Check(good, rule, fnName(fn), "client variable forwarded only if supplied", r.P.pos(mu.Pos()),
			"the variable is copied under the ok side of a comma-ok lookup in the request's variables",
			"every name of the step's variable list is forwarded, present or not (absent ones as null): the sub-request's variables map then holds more than the stitched id, the `len(variables) == 1` gate of de-duplication never passes and the same entity is fetched once per list occurrence; absent variables also override downstream defaults with null")
	}
	// the library form of the same loop: lo.PickByKeys(request.Variables, step.VariablesList)
	// copies exactly the entries of the list that the client supplied, values untouched
	for _, ins := range allInstrs(fn) {
		c, ok := ins.(*ssa.Call)
		if !ok || !strings.HasSuffix(strings.SplitN(calleeName(&c.Call), "[", 2)[0], "lo.PickByKeys") || len(c.Call.Args) != 2 {
			continue
		}
		if dependsOnField(c.Call.Args[0], "Variables") && dependsOnField(c.Call.Args[1], "VariablesList") {
			n++
			r.OK(rule, fnName(fn), "client variables picked by the step's list", r.P.pos(c.Pos()), "lo.PickByKeys(client variables, step variable list): a new map holding exactly the listed variables the client supplied, each with the very value it sent (covers R13k.vars, R13k.same and R13k.all)")
		}
	}
	r.AtLeast(rule, "forwarded client variables", n, 1)
	// what the variables function hands back is what is sent: nobody changes the map between
	// that call and the request it goes into (third audit: nil values deleted, and values
	// replaced by a JSON round trip, in the caller)
	var written func(v ssa.Value, depth int) (bool, token.Pos)
	written = func(v ssa.Value, depth int) (bool, token.Pos) {
		if v.Referrers() == nil || depth > 2 {
			return false, token.NoPos
		}
		for _, ref := range *v.Referrers() {
			switch x := ref.(type) {
			case *ssa.MapUpdate:
				if x.Map == v {
					return true, x.Pos()
				}
			case ssa.CallInstruction:
				c := x.Common()
				if b, ok := c.Value.(*ssa.Builtin); ok && b.Name() == "delete" && len(c.Args) > 0 && c.Args[0] == v {
					return true, x.Pos()
				}
				if sc := c.StaticCallee(); sc != nil && inModule(sc) && sc.Blocks != nil {
					for i, a := range c.Args {
						if a == v && i < len(sc.Params) {
							if w, at := written(sc.Params[i], depth+1); w {
								return true, at
							}
						}
					}
				}
			case *ssa.Store:
				// kept in a local variable: its loads
				if al, ok := x.Addr.(*ssa.Alloc); ok && x.Val == v {
					for _, r2 := range *al.Referrers() {
						if ld, ok := r2.(*ssa.UnOp); ok {
							if w, at := written(ld, depth+1); w {
								return true, at
							}
						}
					}
				}
			}
		}
		return false, token.NoPos
	}
	for _, caller := range r.P.Funcs {
		for _, ins := range allInstrs(caller) {
			c, ok := ins.(*ssa.Call)
			if !ok || c.Call.StaticCallee() != fn {
				continue
			}
			for _, ref := range *c.Referrers() {
				ex, ok := ref.(*ssa.Extract)
				if !ok || ex.Index != 0 {
					continue
				}
				w, at := written(ex, 0)
				site := r.P.pos(c.Pos())
				if w {
					site = r.P.pos(at)
				}
				r.Check(!w, "R13k.same", fnName(caller), "variables map sent as it was built", site,
					"the map returned by "+fnName(fn)+" is not written before it goes into the request",
					"the variables map is changed after it was built from the client's variables (entries deleted or replaced): a variable the client supplied — an explicit null, an upload object — no longer reaches the service as it was sent")
			}
		}
	}
}

// variableSource traces a stored value back to a map lookup; via names the first call or
// conversion it passed through ("" when it is the looked-up value itself).
func variableSource(v ssa.Value, depth int) (*ssa.Lookup, string) {
	if depth > 4 {
		return nil, ""
	}
	switch x := v.(type) {
	case *ssa.Lookup:
		return x, ""
	case *ssa.Extract:
		if lk, ok := x.Tuple.(*ssa.Lookup); ok {
			return lk, ""
		}
		if c, ok := x.Tuple.(*ssa.Call); ok {
			return variableSource(c, depth+1)
		}
	case *ssa.Call:
		for _, a := range x.Call.Args {
			if lk, _ := variableSource(a, depth+1); lk != nil {
				return lk, "a call of " + calleeDesc(&x.Call)
			}
		}
	case *ssa.MakeInterface:
		return variableSource(x.X, depth+1)
	case *ssa.ChangeType:
		return variableSource(x.X, depth+1)
	case *ssa.TypeAssert:
		if lk, via := variableSource(x.X, depth+1); lk != nil {
			if via == "" {
				via = "a type assertion"
			}
			return lk, via
		}
	case *ssa.Phi:
		for _, e := range x.Edges {
			if lk, via := variableSource(e, depth+1); lk != nil {
				if via == "" {
					via = "a conditional rewrite"
				}
				return lk, via
			}
		}
	}
	return nil, ""
}

// ruleSingleLoopNesting (R12a.nest): DepthExecutor.Execute is called in exactly one loop (the
// depth loop), not in a loop nested inside it.
func ruleSingleLoopNesting(r *Run) {
	const rule = "R12a.nest"
	mgr := r.Anchor(rule, "executor.(*DepthExecutorManager).Execute")
	if mgr == nil {
		return
	}
	// the call may sit in a helper of the manager (the loop body moved out): the loops around
	// the call sites on the way are added up
	passes := depthPassSites(r, mgr)
	for _, ps := range passes {
		r.Check(ps.nest == 1, rule, fnName(mgr), "DepthExecutor.Execute loop nesting", r.P.pos(ps.edge.Site.Pos()),
			"called in the depth loop only", "DepthExecutor.Execute is called inside a loop nested in the depth loop (passes/chunks of one level): each pass groups by service and calls Queryer.Query itself, so one level produces several batched calls per service and de-duplication no longer spans the level")
	}
	r.AtLeast(rule, "calls of DepthExecutor.Execute under the manager", len(passes), 1)
}

// ruleGatewayState (R3b): request code neither stores to nor calls pointer-receiver methods
// on fields of the Gateway object.
func ruleGatewayState(r *Run) {
	h := r.Anchor("R3b", "pebbles.(*Gateway).Handler")
	if h == nil {
		return
	}
	m := 0
	var fns []*ssa.Function
	for fn := range r.P.CG.Reachable([]*ssa.Function{h}, nil) {
		fns = append(fns, fn)
	}
	sort.Slice(fns, func(i, j int) bool { return fnName(fns[i]) < fnName(fns[j]) })
	for _, fn := range fns {
		for _, ins := range allInstrs(fn) {
			var fa *ssa.FieldAddr
			what := ""
			switch x := ins.(type) {
			case *ssa.Store:
				if f, ok := x.Addr.(*ssa.FieldAddr); ok && namedOf(f.X.Type()) == modPath+".Gateway" {
					fa, what = f, "store"
				}
			case *ssa.MapUpdate:
				if ld, ok := x.Map.(*ssa.UnOp); ok && ld.Op == token.MUL {
					if f, ok := ld.X.(*ssa.FieldAddr); ok && namedOf(f.X.Type()) == modPath+".Gateway" {
						fa, what = f, "map write"
					}
				}
			case ssa.CallInstruction:
				c := x.Common()
				if !c.IsInvoke() && len(c.Args) > 0 && c.Signature().Recv() != nil {
					if f, ok := c.Args[0].(*ssa.FieldAddr); ok && namedOf(f.X.Type()) == modPath+".Gateway" {
						fa, what = f, "call "+calleeDesc(c)
					}
					// an object the Gateway points to, handed as receiver to a method that writes it
					if ld, ok := c.Args[0].(*ssa.UnOp); ok && ld.Op == token.MUL {
						if f, ok := ld.X.(*ssa.FieldAddr); ok && namedOf(f.X.Type()) == modPath+".Gateway" {
							if sc := c.StaticCallee(); sc != nil && writesReceiver(r.P.declared(sc), 0) {
								fa, what = f, "call "+calleeDesc(c)+" (writes its receiver)"
							}
						}
					}
				}
			}
			if st, ok := ins.(*ssa.Store); ok && fa == nil {
				// g.x.f = v where x is a pointer field of Gateway
				if f2, ok := st.Addr.(*ssa.FieldAddr); ok {
					if ld, ok := f2.X.(*ssa.UnOp); ok && ld.Op == token.MUL {
						if f, ok := ld.X.(*ssa.FieldAddr); ok && namedOf(f.X.Type()) == modPath+".Gateway" {
							fa, what = f, "store through"
						}
					}
				}
			}
			if fa == nil {
				continue
			}
			m++
			r.Bad("R3b", fnName(fn), what+" on Gateway."+fieldOf(fa).Name(), r.P.pos(ins.Pos()), "request-handling code writes state of the Gateway object (shared by all requests): what a request sees then depends on earlier or concurrent requests — e.g. a cache of parsed documents hands the same AST to the planner again, which rewrites it in place, or a cache keyed without the request's variables / operation name answers with another request's result")
		}
	}
	if m == 0 {
		r.OK("R3b", fnName(h), "Gateway state is read-only on the request path", r.P.pos(h.Pos()), "no store, map write or pointer-receiver method call on a field of Gateway in any function reachable from Handler")
	}
}

// writesReceiver: the method stores into (a field or element of) its receiver, directly or
// through another method of the same receiver.
func writesReceiver(fn *ssa.Function, depth int) bool {
	if fn == nil || fn.Blocks == nil || len(fn.Params) == 0 || depth > 2 {
		return false
	}
	recv := ssa.Value(fn.Params[0])
	rootIsRecv := func(a ssa.Value) bool {
		for i := 0; i < 6; i++ {
			switch x := a.(type) {
			case *ssa.FieldAddr:
				a = x.X
			case *ssa.IndexAddr:
				a = x.X
			default:
				return a == recv
			}
		}
		return false
	}
	for _, ins := range allInstrs(fn) {
		switch x := ins.(type) {
		case *ssa.Store:
			if _, isFA := x.Addr.(*ssa.FieldAddr); isFA && rootIsRecv(x.Addr) {
				return true
			}
		case *ssa.MapUpdate:
			if ld, ok := x.Map.(*ssa.UnOp); ok && rootIsRecv(ld.X) {
				return true
			}
		case ssa.CallInstruction:
			c := x.Common()
			if sc := c.StaticCallee(); sc != nil && len(c.Args) > 0 && c.Args[0] == recv && c.Signature().Recv() != nil && sc != fn {
				if writesReceiver(sc, depth+1) {
					return true
				}
			}
		}
	}
	return false
}

// ruleSliceReuse (R3f): the `x[:0]` filter-in-place idiom is applied only to slices the
// function made itself. On a shared slice (a schema definition's field list, a plan's steps)
// it overwrites the backing array other readers still use.
func ruleSliceReuse(roots ...string) ruleFn {
	return func(r *Run) {
		const rule = "R3f"
		var rs []*ssa.Function
		for _, n := range roots {
			if fn := r.Anchor(rule, n); fn != nil {
				rs = append(rs, fn)
			}
		}
		n := 0
		for fn := range r.P.CG.Reachable(rs, nil) {
			for _, ins := range allInstrs(fn) {
				sl, ok := ins.(*ssa.Slice)
				if !ok || sl.High == nil || !isIntConst(sl.High, 0) || sl.Low != nil {
					continue
				}
				n++
				if sl.Max != nil && isIntConst(sl.Max, 0) {
					// `x[:0:0]` (the head of the clone idiom `append(x[:0:0], x...)`): capacity 0 leaves no
					// room in the original's array, an append to it allocates a new one
					r.OK(rule, fnName(fn), "re-slice to zero length", r.P.pos(sl.Pos()), "the re-slice has capacity 0: appending to it cannot write into the original's backing array")
					continue
				}
				_, fresh := sl.X.(*ssa.MakeSlice)
				if al, isAl := sl.X.(*ssa.Alloc); isAl && al.Parent() == fn {
					fresh = true
				}
				r.Check(fresh, rule, fnName(fn), "re-slice to zero length", r.P.pos(sl.Pos()),
					"the slice was made by this function", "a slice this function did not allocate is cut to length 0 and appended to (filter-in-place): the elements of the original — a field list of the merged schema, a step list of a cached plan — are overwritten for every other reader")
			}
		}
		if n == 0 {
			r.OK(rule, "", "no x[:0] reuse in scope", "-", "no zero-length re-slice in the functions reachable from "+strings.Join(roots, ", "))
		}
	}
}

// ruleDecodeTargetScope (R3g): a variable that json.Unmarshal fills inside a loop is declared
// inside that loop. encoding/json re-uses non-nil pointers and maps of its target, so a target
// that survives the iteration makes the values decoded in different iterations share memory.
func ruleDecodeTargetScope(r *Run) {
	const rule = "R3g"
	n := 0
	for _, fn := range r.P.Funcs {
		for _, ins := range allInstrs(fn) {
			ci, ok := ins.(ssa.CallInstruction)
			if !ok {
				continue
			}
			switch calleeName(ci.Common()) {
			case "encoding/json.Unmarshal", "(*encoding/json.Decoder).Decode":
			default:
				continue
			}
			loop := innermostLoop(ins.Block())
			if loop == nil {
				continue
			}
			args := ci.Common().Args
			tgt := unwrap(args[len(args)-1])
			// the variable itself, or a field / element of it (`&in.frame`)
			for {
				if fa, ok := tgt.(*ssa.FieldAddr); ok {
					tgt = fa.X
					continue
				}
				if ia, ok := tgt.(*ssa.IndexAddr); ok {
					tgt = ia.X
					continue
				}
				break
			}
			al, ok := tgt.(*ssa.Alloc)
			if !ok {
				continue
			}
			n++
			// declared outside but reset at the top of every round: a store of a fresh (zero or
			// literal) value into the whole variable that comes before the decode in the round
			reset := false
			if !loop[al.Block()] {
				for _, st := range storesTo(al) {
					if !loop[st.Block()] || !instrDominates(st, ins) {
						continue
					}
					switch v := st.Val.(type) {
					case *ssa.Const:
						reset = true
					case *ssa.UnOp:
						if src, ok := v.X.(*ssa.Alloc); ok && loop[src.Block()] {
							reset = true // composite literal built in this round
						}
					}
				}
			}
			r.Check(loop[al.Block()] || reset, rule, fnName(fn), "decode target declared per iteration", r.P.pos(ins.Pos()),
				"the decoded variable is a fresh one in every iteration", "the variable that is JSON-decoded inside this loop is declared outside it: encoding/json re-uses the pointers and maps already hanging off it, so a message decoded later overwrites the request/variables an earlier subscription still holds")
		}
	}
	r.AtLeast(rule, "JSON decodes inside loops", n, 2)
}

// ruleReturnedDataScrubbed (R5.clean.ret): every non-nil data map the subscription executor
// closure returns was passed to ScrubFields.Clean.
func ruleReturnedDataScrubbed(r *Run) {
	const rule = "R5.clean"
	for _, fn := range r.AnchorRole(rule, "executorFn") {
		r.returnedDataScrubbed(fn)
	}
}

func (r *Run) returnedDataScrubbed(fn *ssa.Function) {
	const rule = "R5.clean"
	for _, ret := range returnsOf(fn) {
		v := unwrap(retVals(ret)[0])
		if isNilConst(v) {
			continue
		}
		cleaned := false
		for _, ins := range allInstrs(fn) {
			if ci, ok := isCleanCall(ins); ok && len(ci.Common().Args) >= 2 && unwrap(ci.Common().Args[1]) == v && instrDominates(ci, ret) {
				cleaned = true
			}
		}
		r.Check(cleaned, rule, fnName(fn), "returned event data scrubbed", r.P.pos(retPos(ret)),
			"the returned map was passed to ScrubFields.Clean on every path to this return", "the per-event executor returns a data map that did not pass ScrubFields.Clean (e.g. a fast path for events that need no follow-up fetch): helper id/__typename reach the subscriber")
	}
}

// ruleBuiltinLists (R11d): what the reconstruction skips as "built in" is exactly what
// gqlparser's prelude declares.
func ruleBuiltinLists(r *Run) {
	const rule = "R11d"
	schema, err := preludeSchema()
	if err != nil {
		r.Bad(rule, "introspection", "prelude", "-", err.Error())
		return
	}
	preludeDirs := map[string]bool{}
	for name := range schema.Directives {
		preludeDirs[name] = true
	}
	fn := r.Anchor(rule, "introspection.introspectRemoteSchema")
	if fn == nil {
		return
	}
	dirName, dirStruct := r.directiveNameField()
	if dirName == nil {
		r.Bad(rule, fnName(fn), "anchor the decoded name of a directive", r.P.pos(fn.Pos()), "the struct the directives of the answer are decoded into (key `__schema.directives`, field `name`) was not found: the list of skipped directives could not be checked")
		return
	}
	// string constants compared with a load of the decoded directive name whose true side continues the loop
	skipped := map[string]bool{}
	var blocks []*ssa.BasicBlock
	for g := range r.P.CG.Reachable([]*ssa.Function{fn}, nil) {
		if topFn(g).Pkg == topFn(fn).Pkg {
			blocks = append(blocks, g.Blocks...)
		}
	}
	for _, b := range blocks {
		iff, ok := b.Instrs[len(b.Instrs)-1].(*ssa.If)
		if !ok {
			continue
		}
		bo, ok := iff.Cond.(*ssa.BinOp)
		if !ok || bo.Op != token.EQL {
			continue
		}
		k, ok := bo.Y.(*ssa.Const)
		if !ok || k.Value == nil || k.Value.Kind() != constant.String {
			continue
		}
		// the name of a directive of the answer, by role: the field decoded from `name` of the
		// struct decoded from `__schema.directives` (whatever the struct is called; the field
		// may be promoted from an embedded struct)
		nameLoad := false
		ofDirective := func(f *types.Var, base ssa.Value) bool {
			if f == nil || f != dirName {
				return false
			}
			if derefType(base.Type()) == types.Type(dirStruct) {
				return true
			}
			switch y := base.(type) {
			case *ssa.FieldAddr:
				return derefType(y.X.Type()) == types.Type(dirStruct)
			case *ssa.Field:
				return derefType(y.X.Type()) == types.Type(dirStruct)
			}
			return false
		}
		switch x := bo.X.(type) {
		case *ssa.Field:
			nameLoad = ofDirective(fieldOfVal(x), x.X)
		case *ssa.UnOp:
			if fa, ok := x.X.(*ssa.FieldAddr); ok {
				nameLoad = ofDirective(fieldOf(fa), fa.X)
			}
		}
		if !nameLoad {
			continue
		}
		name := constant.StringVal(k.Value)
		if name == "" {
			continue // the "missing name" error case
		}
		skipped[name] = true
	}
	var names []string
	for n := range skipped {
		names = append(names, n)
	}
	sort.Strings(names)
	for _, n := range names {
		r.Check(preludeDirs[n], rule, fnName(fn), "skipped directive "+n, r.P.pos(fn.Pos()),
			"gqlparser's prelude declares @"+n+" itself", "the reconstruction drops the service's directive @"+n+" as `built in`, but the validator's prelude does not declare it: the directive vanishes from the gateway schema and operations using it stop validating")
	}
	for d := range preludeDirs {
		r.Check(skipped[d], rule, fnName(fn), "prelude directive "+d+" skipped", r.P.pos(fn.Pos()),
			"not re-declared", "the prelude directive @"+d+" is no longer skipped: LoadSchema would fail with a redeclaration for every service")
	}
	r.AtLeast(rule, "skipped builtin directives", len(names), 3)
	// the reconstruction never deletes what the service declared
	for g := range r.P.CG.Reachable([]*ssa.Function{fn}, nil) {
		for _, ins := range allInstrs(g) {
			c, ok := ins.(*ssa.Call)
			if !ok {
				continue
			}
			if b, isB := c.Call.Value.(*ssa.Builtin); isB && b.Name() == "delete" && strings.Contains(shortType(c.Call.Args[0].Type()), "ast.") {
				r.Bad(rule, fnName(g), "delete from the reconstructed schema", r.P.pos(c.Pos()), "the reconstruction removes entries from the schema it rebuilt from the service's answer: types/directives the service declares disappear without a start-up error")
			}
		}
	}
}

// ruleRootDefinitionIdentity (R13s): code that replaces a root type in Schema.Types also
// replaces the matching Schema.Query/Mutation/Subscription pointer (validation walks the
// latter, introspection the former).
func ruleRootDefinitionIdentity(r *Run) {
	const rule = "R13s"
	n := 0
	for _, fn := range r.P.Funcs {
		if topFn(fn).Pkg == nil || !strings.HasSuffix(topFn(fn).Pkg.Pkg.Path(), "/merger") {
			continue
		}
		for _, ins := range allInstrs(fn) {
			mu, ok := ins.(*ssa.MapUpdate)
			if !ok || !dependsOnField(mu.Map, "Types") {
				continue
			}
			k, ok := mu.Key.(*ssa.Const)
			if !ok || k.Value == nil || k.Value.Kind() != constant.String {
				continue
			}
			root := constant.StringVal(k.Value)
			if root != "Query" && root != "Mutation" && root != "Subscription" {
				continue
			}
			n++
			paired := false
			for _, i2 := range allInstrs(fn) {
				if st, ok := i2.(*ssa.Store); ok {
					if fa, ok := st.Addr.(*ssa.FieldAddr); ok && fieldOf(fa) != nil && fieldOf(fa).Name() == root && strings.HasSuffix(namedOf(fa.X.Type()), "ast.Schema") && st.Val == mu.Value {
						paired = true
					}
				}
			}
			r.Check(paired, rule, fnName(fn), "Schema.Types[\""+root+"\"] and Schema."+root+" updated together", r.P.pos(mu.Pos()),
				"both references receive the same definition", "the root definition is replaced in Schema.Types only: validation resolves the operation root through Schema."+root+" while introspection reads Schema.Types, so the gateway reports one set of root fields and enforces another")
		}
	}
	if n == 0 {
		r.OK(rule, "merger", "root definitions edited in place", "-", "no merger function replaces a root type in Schema.Types (roots are edited in place, so Schema.Query and Schema.Types[\"Query\"] stay one object)")
	}
}

// ruleGlobalState (R3h): code reachable from the HTTP handler does not write package-level
// state of the module: no store to (a field/element of) a package variable, no map write on a
// map held in one, no Store/LoadOrStore/Delete/Put/Get on a package-level sync.Map or
// sync.Pool. Such state outlives the request and is shared by concurrent ones: a pooled or
// memoised object handed to two requests makes one answer depend on the other.
var globalWriteTable = map[string]tabEntry{}

func ruleGlobalState(r *Run) {
	const rule = "R3h"
	h := r.Anchor(rule, "pebbles.(*Gateway).Handler")
	if h == nil {
		return
	}
	globalRoot := func(a ssa.Value) *ssa.Global {
		for i := 0; i < 8; i++ {
			switch x := a.(type) {
			case *ssa.FieldAddr:
				a = x.X
			case *ssa.IndexAddr:
				a = x.X
			case *ssa.UnOp:
				if x.Op != token.MUL {
					return nil
				}
				a = x.X
			case *ssa.Global:
				if x.Pkg != nil && (x.Pkg.Pkg.Path() == modPath || strings.HasPrefix(x.Pkg.Pkg.Path(), modPath+"/")) {
					return x
				}
				return nil
			default:
				return nil
			}
		}
		return nil
	}
	var fns []*ssa.Function
	// with the context-insensitive edges: the default queryer factory is a closure stored in a
	// Gateway field and reached through a function-typed option parameter
	for fn := range r.P.CG.ReachableAll([]*ssa.Function{h}) {
		fns = append(fns, fn)
	}
	sort.Slice(fns, func(i, j int) bool { return fnName(fns[i]) < fnName(fns[j]) })
	n, nGlobals := 0, 0
	for _, fn := range fns {
		for _, ins := range allInstrs(fn) {
			var g *ssa.Global
			what := ""
			switch x := ins.(type) {
			case *ssa.Store:
				if g = globalRoot(x.Addr); g != nil {
					what = "store to"
				}
			case *ssa.MapUpdate:
				if g = globalRoot(x.Map); g != nil {
					what = "map write on"
				}
			case ssa.CallInstruction:
				c := x.Common()
				cn := calleeName(c)
				if len(c.Args) > 0 && (strings.HasPrefix(cn, "(*sync.Map).") || strings.HasPrefix(cn, "(*sync.Pool).")) {
					if g = globalRoot(c.Args[0]); g != nil {
						what = "call " + cn + " on"
					}
				}
				if b, ok := c.Value.(*ssa.Builtin); ok && b.Name() == "delete" {
					if g = globalRoot(c.Args[0]); g != nil {
						what = "delete on"
					}
				}
			case *ssa.UnOp:
				if gl, ok := x.X.(*ssa.Global); ok && x.Op == token.MUL && globalRoot(gl) != nil {
					nGlobals++
				}
			}
			if g == nil {
				continue
			}
			n++
			construct := what + " package variable " + shortPkg(g.Pkg.Pkg.Path()) + "." + g.Name()
			if reason, ok := useTable(r, globalWriteTable, fnName(fn)+"/"+construct); ok {
				r.Tabled(rule, fnName(fn), construct, r.P.pos(ins.Pos()), "globalWrite", reason)
				continue
			}
			r.Bad(rule, fnName(fn), construct, r.P.pos(ins.Pos()), "request-handling code writes package-level state, which outlives the request and is shared by concurrent requests: an object memoised or pooled there (a queryer bound to one request's context, a formatter that keeps its operation type, a buffer still referenced by an unsent body) makes one request's outcome depend on another's")
		}
	}
	// R3j: request code does not write into an object of a library type that it did not create
	// itself. Such objects are handed in from outside (the HTTP client of the default queryer
	// factory is http.DefaultClient, one per process): a field set for one request — a timeout,
	// a transport, a redirect policy — holds for every other request in flight, and the write
	// races with their reads.
	nLib := 0
	for _, fn := range fns {
		for _, ins := range allInstrs(fn) {
			st, ok := ins.(*ssa.Store)
			if !ok {
				continue
			}
			fa, ok := st.Addr.(*ssa.FieldAddr)
			if !ok {
				continue
			}
			owner := namedOf(fa.X.Type())
			if owner == "" || strings.HasPrefix(owner, modPath) || !strings.Contains(owner, ".") {
				continue
			}
			if strings.HasPrefix(owner, gqlAST) || strings.HasPrefix(owner, "github.com/vektah/gqlparser") {
				continue // AST nodes: R3a.ast
			}
			root := fa.X
			for {
				if f2, ok := root.(*ssa.FieldAddr); ok {
					root = f2.X
					continue
				}
				break
			}
			if al, ok := root.(*ssa.Alloc); ok && al.Parent() == fn {
				continue // built here
			}
			if libraryFresh(r, root, fn, 0) {
				continue
			}
			nLib++
			r.Bad("R3j", fnName(fn), "write "+owner+"."+fieldOf(fa).Name(), r.P.pos(st.Pos()),
				"request-handling code sets a field of a "+owner+" it did not create: the object comes from outside (the default queryer factory hands every queryer the process-wide http.DefaultClient), so the value set for this request holds for all others in flight and the write races with their use of the object")
		}
	}
	if nLib == 0 {
		r.OK("R3j", fnName(h), "library objects handed in are not written", r.P.pos(h.Pos()), fmt.Sprintf("no store into a field of a non-module, non-AST struct that the storing function did not allocate, in the %d functions reachable from Handler", len(fns)))
	}
	if n == 0 {
		r.OK(rule, fnName(h), "package-level state is read-only on the request path", r.P.pos(h.Pos()), fmt.Sprintf("no store, map write, delete or sync.Map/sync.Pool call on a package variable in the %d functions reachable from Handler (%d reads of package variables seen)", len(fns), nGlobals))
	}
	r.AtLeast(rule, "functions reachable from Handler", len(fns), 100)
}

// ruleExecutionRequestIdentity (R13k.req): the request an ExecutionContext carries is the client's
// request — the one the handler parsed — not a request the gateway has put together itself.
// The executor takes the variables of every sub-request from it (R13k.vars/all): a request
// assembled for another purpose (the start message of the upstream subscription, trimmed to the
// variables the root step declares) silently loses the values that only other services' steps use.
func ruleExecutionRequestIdentity(r *Run) {
	const rule = "R13k.req"
	n := 0
	isReq := func(t types.Type) bool {
		if p, ok := t.Underlying().(*types.Pointer); ok {
			t = p.Elem()
		}
		return strings.HasSuffix(namedOf(t), "requests.Request")
	}
	var builtHere func(v ssa.Value, fn *ssa.Function, depth int) (bool, string)
	builtHere = func(v ssa.Value, fn *ssa.Function, depth int) (bool, string) {
		if depth > 6 {
			return false, ""
		}
		v = unwrap(v)
		switch x := v.(type) {
		case *ssa.Alloc:
			if isReq(x.Type()) && x.Heap && !isCell(x) {
				return true, r.P.pos(x.Pos())
			}
			// a local variable: what is stored into it
			for _, st := range storesTo(x) {
				if b, at := builtHere(st.Val, fn, depth+1); b {
					return true, at
				}
			}
		case *ssa.UnOp:
			if x.Op == token.MUL {
				return builtHere(x.X, fn, depth+1)
			}
		case *ssa.Phi:
			for _, e := range x.Edges {
				if b, at := builtHere(e, fn, depth+1); b {
					return true, at
				}
			}
		case *ssa.Call:
			// a helper of the module that assembles the request and returns it
			if sc := x.Call.StaticCallee(); sc != nil && inModule(sc) && sc.Blocks != nil {
				for _, ret := range returnsOf(sc) {
					for _, res := range retVals(ret) {
						if isReq(res.Type()) {
							if b, at := builtHere(res, sc, depth+1); b {
								return true, at
							}
						}
					}
				}
			}
		case *ssa.Extract:
			if c, ok := x.Tuple.(*ssa.Call); ok {
				return builtHere(c, fn, depth+1)
			}
		case *ssa.FreeVar:
			// captured: the value bound where the closure is made
			parent := fn.Parent()
			if parent == nil {
				return false, ""
			}
			idx := -1
			for i, fv := range fn.FreeVars {
				if fv == x {
					idx = i
				}
			}
			for _, ins := range allInstrs(parent) {
				if mc, ok := ins.(*ssa.MakeClosure); ok && mc.Fn == ssa.Value(fn) && idx >= 0 && idx < len(mc.Bindings) {
					if b, at := builtHere(mc.Bindings[idx], parent, depth+1); b {
						return true, at
					}
				}
			}
		}
		return false, ""
	}
	for _, fn := range r.P.Funcs {
		for _, ins := range allInstrs(fn) {
			st, ok := ins.(*ssa.Store)
			if !ok {
				continue
			}
			fa, ok := st.Addr.(*ssa.FieldAddr)
			if !ok || fieldOf(fa) == nil || fieldOf(fa).Name() != "Request" || !strings.HasSuffix(namedOf(fa.X.Type()), "executor.ExecutionContext") {
				continue
			}
			n++
			built, at := builtHere(st.Val, fn, 0)
			r.Check(!built, rule, fnName(fn), "request handed to the executor", r.P.pos(st.Pos()),
				"the request comes from the caller (the handler's parsed request / the planning context), it is not assembled here",
				"the executor is handed a request that the gateway assembled itself (literal at "+at+") instead of the client's request: the executor forwards the variables of every sub-request from it, so values the assembled request does not carry are silently missing from the steps of other services")
		}
	}
	r.AtLeast(rule, "execution contexts built", n, 2)
}

// isCell: the alloc is the cell of a local variable (its type is a pointer to the request),
// not the request itself.
func isCell(a *ssa.Alloc) bool {
	if p, ok := a.Type().Underlying().(*types.Pointer); ok {
		_, ptr := p.Elem().Underlying().(*types.Pointer)
		return ptr
	}
	return false
}

// ruleNextRequestsSearched (R12e.next): every answer that parseRespones accepts is searched for
// the requests of the next depth. The answers of de-duplicated lookups are copies placed at
// several insertion points: the next depth collapses the CALLS again, but each insertion point
// needs its own next requests, or the fields of deeper services appear under the first
// occurrence of an object only.
func ruleNextRequestsSearched(r *Run) {
	const rule = "R12e.next"
	root := r.Anchor(rule, "executor.(*DepthExecutor).parseRespones")
	if root == nil {
		return
	}
	n := 0
	for _, fn := range withClosures(root) {
		var calls []ssa.Instruction
		for _, ins := range allInstrs(fn) {
			if ci, ok := ins.(ssa.CallInstruction); ok && strings.HasSuffix(calleeName(ci.Common()), "findNextExecutionRequests") {
				calls = append(calls, ins)
			}
		}
		if len(calls) == 0 {
			continue
		}
		for _, ret := range returnsOf(fn) {
			success := true
			for i, res := range retVals(ret) {
				if isErrorish(fn.Signature.Results().At(i).Type()) && !isNilConst(unwrap(res)) {
					success = false
				}
			}
			if !success {
				continue
			}
			n++
			dom := false
			for _, c := range calls {
				if instrDominates(c, ret) {
					dom = true
				}
				// skipped only when the step has no steps behind it (`if len(step.Then) != 0 { … }`):
				// there is nothing to look for then
				for _, i2 := range allInstrs(fn) {
					iff, ok := i2.(*ssa.If)
					if !ok || !instrDominates(iff, ret) {
						continue
					}
					pos, neg := nonEmptyTest(iff.Cond, func(v ssa.Value) bool { return dependsOnField(v, "Then") }, 0)
					var side *ssa.BasicBlock
					if pos {
						side = iff.Block().Succs[0]
					} else if neg {
						side = iff.Block().Succs[1]
					}
					if side != nil && len(side.Preds) == 1 && (side == c.Block() || side.Dominates(c.Block())) {
						// and on that side the call is unavoidable up to the point where the sides meet
						dom = true
					}
				}
			}
			r.Check(dom, rule, fnName(fn), "answer searched for next requests", r.P.pos(retPos(ret)),
				"every accepted answer passes through findNextExecutionRequests",
				"an answer can be accepted without being searched for the next depth's requests: the results of deeper services are then missing at that insertion point (for instance under every repeated occurrence of a de-duplicated object) and nothing reports it")
		}
	}
	r.AtLeast(rule, "accepting returns of the answer parser", n, 1)
}

// libraryFresh: the object was made by a library constructor called here (url.Parse,
// http.NewRequest): a call of a non-module function none of whose arguments has the type of
// the result (a function that can hand back one of its arguments — lo.Coalesce, lo.Ternary —
// makes nothing). A parameter is fresh when every caller passes such an object.
func libraryFresh(r *Run, v ssa.Value, fn *ssa.Function, depth int) bool {
	if depth > 3 {
		return false
	}
	if al, ok := v.(*ssa.Alloc); ok {
		return al.Parent() == fn
	}
	if ex, ok := v.(*ssa.Extract); ok {
		v = ex.Tuple
	}
	switch x := v.(type) {
	case *ssa.Call:
		sc := x.Call.StaticCallee()
		if sc == nil || inModule(sc) {
			return false
		}
		var resT []types.Type
		res := x.Call.Signature().Results()
		for i := 0; i < res.Len(); i++ {
			resT = append(resT, res.At(i).Type())
		}
		for _, a := range x.Call.Args {
			at := a.Type()
			if sl, ok := at.Underlying().(*types.Slice); ok {
				at = sl.Elem()
			}
			for _, rt := range resT {
				if types.Identical(at, rt) {
					return false
				}
			}
		}
		return true
	case *ssa.Parameter:
		p := x.Parent()
		idx := -1
		for i, q := range p.Params {
			if q == x {
				idx = i
			}
		}
		n := 0
		for _, e := range r.P.CG.In[p] {
			if e.Kind != "static" || idx < 0 {
				return false
			}
			args := e.Site.Common().Args
			if idx >= len(args) || !libraryFresh(r, unwrap(args[idx]), e.Caller, depth+1) {
				return false
			}
			n++
		}
		return n > 0
	}
	return false
}
