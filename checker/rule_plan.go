package main

// Planner / plan-cache rules (C14, C06, C02, C01):
//  R3a   plans are immutable after planning: only the construction set writes plan objects
//  R10a  cache key: computed before planning (the planner rewrites the operation in place),
//        and depends on the operation type and the operation's selection set on every path
//  R13e  operation type/name reach only root steps: step formatters are fresh, and
//        WithOperationType is applied only under len(InsertionPoint) == 0
//  R13m  a step's InsertionPoint is a fresh copy, never an alias of the planner's work slice

import (
	"fmt"
	"go/token"
	"go/types"
	"sort"
	"strings"

	"golang.org/x/tools/go/ssa"
)

const plannerPkg = modPath + "/planner"

func isPlanType(t types.Type) bool {
	switch namedOf(t) {
	case plannerPkg + ".QueryPlan", plannerPkg + ".QueryPlanStep", plannerPkg + ".ScrubFields":
		return true
	}
	return false
}

// addrRoot walks FieldAddr/IndexAddr chains (and loads of slice/pointer fields on the way)
// down to the object the address belongs to, reporting whether a plan-typed object is on
// the chain.
func planWriteInfo(addr ssa.Value) (root ssa.Value, touchesPlan bool, what string) {
	v := addr
	for i := 0; i < 12; i++ {
		switch x := v.(type) {
		case *ssa.FieldAddr:
			if isPlanType(x.X.Type()) {
				touchesPlan = true
				if f := fieldOf(x); f != nil && what == "" {
					what = namedOf(x.X.Type())[strings.LastIndex(namedOf(x.X.Type()), ".")+1:] + "." + f.Name()
				}
			}
			v = x.X
		case *ssa.IndexAddr:
			v = x.X
		case *ssa.UnOp:
			if x.Op != token.MUL {
				return v, touchesPlan, what
			}
			// load of a slice/pointer held in a field: keep walking to the owner
			if fa, ok := x.X.(*ssa.FieldAddr); ok {
				v = fa
				continue
			}
			return v, touchesPlan, what
		default:
			return v, touchesPlan, what
		}
	}
	return v, touchesPlan, what
}

// viaSharedField: the written address is reached through a load of a slice/pointer field of a
// local struct variable that was filled by copying a whole struct into it (`cpy := *step`):
// the variable is new, but what its fields point to still belongs to the original.
func viaSharedField(addr ssa.Value) bool {
	v := addr
	for i := 0; i < 12; i++ {
		switch x := v.(type) {
		case *ssa.FieldAddr:
			v = x.X
		case *ssa.IndexAddr:
			v = x.X
		case *ssa.Slice:
			v = x.X
		case *ssa.UnOp:
			fa, ok := x.X.(*ssa.FieldAddr)
			if x.Op != token.MUL || !ok {
				return false
			}
			if al, isAl := fa.X.(*ssa.Alloc); isAl {
				for _, st := range storesTo(al) {
					if _, isStruct := st.Val.Type().Underlying().(*types.Struct); isStruct && st.Addr == ssa.Value(al) {
						if _, zero := st.Val.(*ssa.Const); !zero {
							return true
						}
					}
				}
				return false
			}
			v = fa
		default:
			return false
		}
	}
	return false
}

func isFreshRoot(root ssa.Value, fn *ssa.Function) bool {
	switch x := root.(type) {
	case *ssa.Alloc:
		return x.Parent() == fn
	case *ssa.MakeSlice, *ssa.MakeMap:
		return true
	}
	return false
}

// planWriters returns, per function, the instructions that write plan objects that the
// function did not allocate itself.
func planWriters(P *Prog) map[*ssa.Function][]ssa.Instruction {
	out := map[*ssa.Function][]ssa.Instruction{}
	for _, fn := range P.Funcs {
		for _, ins := range allInstrs(fn) {
			switch x := ins.(type) {
			case *ssa.Store:
				root, touches, _ := planWriteInfo(x.Addr)
				if touches && (!isFreshRoot(root, fn) || viaSharedField(x.Addr)) {
					out[fn] = append(out[fn], ins)
				}
			case *ssa.MapUpdate:
				if isPlanType(x.Map.Type()) {
					if _, fresh := x.Map.(*ssa.MakeMap); !fresh {
						out[fn] = append(out[fn], ins)
					}
				}
			case ssa.CallInstruction:
				// copy(dst, …) with dst a slice held in a plan object overwrites the elements
				if w, _ := planCopyWrite(x, fn); w {
					out[fn] = append(out[fn], ins)
					continue
				}
				// a library object embedded in the plan (atomic.Value, sync.Once, sync.Map …)
				// written through its own pointer-receiver method
				if w, _ := planLibraryWrite(x, fn); w {
					out[fn] = append(out[fn], ins)
				}
			}
		}
	}
	return out
}

// planCopyWrite: ins is the builtin copy whose destination is (a slice of) a slice held in a
// field of a plan object the function did not build itself.
func planCopyWrite(ci ssa.CallInstruction, fn *ssa.Function) (bool, string) {
	c := ci.Common()
	b, ok := c.Value.(*ssa.Builtin)
	if !ok || b.Name() != "copy" || len(c.Args) != 2 {
		return false, ""
	}
	dst := c.Args[0]
	for {
		sl, isSl := dst.(*ssa.Slice)
		if !isSl {
			break
		}
		dst = sl.X
	}
	root, touches, what := planWriteInfo(dst)
	if !touches || (isFreshRoot(root, fn) && !viaSharedField(dst)) {
		return false, ""
	}
	return true, "elements of " + what + " (copy)"
}

// planLibraryWrite: ins calls a pointer-receiver method of a type declared outside the module
// on (part of) a field of a plan object the function did not allocate, and the method is not a
// pure reader.
func planLibraryWrite(ci ssa.CallInstruction, fn *ssa.Function) (bool, string) {
	c := ci.Common()
	if c.IsInvoke() || len(c.Args) == 0 || c.Signature().Recv() == nil {
		return false, ""
	}
	sc := c.StaticCallee()
	if sc == nil || inModule(sc) {
		return false, ""
	}
	if _, isPtr := c.Signature().Recv().Type().(*types.Pointer); !isPtr {
		return false, ""
	}
	switch sc.Name() {
	case "Load", "Range", "Len", "String":
		return false, ""
	}
	root, touches, what := planWriteInfo(c.Args[0])
	if !touches || isFreshRoot(root, fn) {
		return false, ""
	}
	return true, what + " via " + calleeName(c)
}

func rulePlanImmutable(r *Run) {
	const rule = "R3a"
	entry := r.Anchor(rule, "planner.(SequentialPlanner).Plan")
	if entry == nil {
		return
	}
	C := r.P.CG.Reachable([]*ssa.Function{entry}, nil)
	W := planWriters(r.P)
	// Mut: functions of C from which a writer is reachable
	Mut := map[*ssa.Function]bool{}
	for fn := range W {
		if C[fn] {
			Mut[fn] = true
		}
	}
	for changed := true; changed; {
		changed = false
		for fn := range C {
			if Mut[fn] {
				continue
			}
			for _, e := range r.P.CG.Out[fn] {
				if Mut[e.Callee] && e.Kind != "param" {
					Mut[fn] = true
					changed = true
				}
			}
		}
	}
	var fns []*ssa.Function
	for fn := range W {
		fns = append(fns, fn)
	}
	sort.Slice(fns, func(i, j int) bool { return fnName(fns[i]) < fnName(fns[j]) })
	n := 0
	for _, fn := range fns {
		for _, ins := range W[fn] {
			n++
			var what string
			switch x := ins.(type) {
			case *ssa.Store:
				_, _, what = planWriteInfo(x.Addr)
			case *ssa.MapUpdate:
				what = "ScrubFields[…]"
			case ssa.CallInstruction:
				if w, s := planCopyWrite(x, fn); w {
					what = s
				} else {
					_, what = planLibraryWrite(x, fn)
				}
			}
			if C[fn] {
				r.OK(rule, fnName(fn), "write "+what, r.P.pos(ins.Pos()), "writer belongs to the construction set (reachable from SequentialPlanner.Plan)")
			} else if reason, ok := useTable(r, planWriteTable, fnName(fn)+"/write "+what); ok {
				r.Tabled(rule, fnName(fn), "write "+what, r.P.pos(ins.Pos()), "planWrite", reason)
			} else {
				r.Bad(rule, fnName(fn), "write "+what, r.P.pos(ins.Pos()), "a query plan object is written outside the planner's construction set: plans are shared between requests by the caching planner (and read concurrently by executors), so a later request or a concurrent one sees the altered plan")
			}
		}
	}
	// callers of mutators must themselves be construction code
	var muts []*ssa.Function
	for fn := range Mut {
		muts = append(muts, fn)
	}
	sort.Slice(muts, func(i, j int) bool { return fnName(muts[i]) < fnName(muts[j]) })
	for _, m := range muts {
		if m == entry {
			continue
		}
		for _, e := range r.P.CG.In[m] {
			if e.Kind == "param" {
				continue
			}
			n++
			if C[e.Caller] {
				r.OK(rule, fnName(e.Caller), "calls plan mutator "+fnName(m), r.P.pos(e.Site.Pos()), "caller is itself part of the construction set")
			} else {
				r.Bad(rule, fnName(e.Caller), "calls plan mutator "+fnName(m), r.P.pos(e.Site.Pos()), "a function that writes plan objects ("+fnName(m)+") is called from outside the planner's construction set: it would mutate a plan that may be shared through the cache or be in use by an executor")
			}
		}
	}
	r.AtLeast(rule, "plan writes and mutator call sites", n, 10)
}

var planWriteTable = map[string]tabEntry{}

// ---- R10a -------------------------------------------------------------------------------

func ruleCacheKey(r *Run) {
	const rule = "R10a"
	plan := r.Anchor(rule, "planner.(*CachedPlanner).Plan")
	hash := r.Anchor(rule, "planner.(*CachedPlanner).hash")
	if plan == nil || hash == nil {
		return
	}
	// (1) hash depends, on every return, on the operation type and on the formatted
	// selection set of the operation
	isCtxOpField := func(v ssa.Value, field string) bool {
		ld, ok := unwrap(v).(*ssa.UnOp)
		if !ok || ld.Op != token.MUL {
			return false
		}
		fa, ok := ld.X.(*ssa.FieldAddr)
		if !ok || fieldOf(fa) == nil || fieldOf(fa).Name() != field || namedOf(fa.X.Type()) != "github.com/vektah/gqlparser/v2/ast.OperationDefinition" {
			return false
		}
		// base must be ctx.Operation
		ld2, ok := fa.X.(*ssa.UnOp)
		if !ok || ld2.Op != token.MUL {
			return false
		}
		fa2, ok := ld2.X.(*ssa.FieldAddr)
		return ok && fieldOf(fa2) != nil && fieldOf(fa2).Name() == "Operation" && namedOf(fa2.X.Type()) == plannerPkg+".PlanningContext"
	}
	var selCalls, opLoads []ssa.Value
	for _, ins := range allInstrs(hash) {
		if c, ok := ins.(*ssa.Call); ok && strings.HasSuffix(calleeName(&c.Call), "FormatSelectionSet") {
			for _, a := range c.Call.Args {
				if isCtxOpField(a, "SelectionSet") {
					selCalls = append(selCalls, c)
				}
			}
		}
		if v, ok := ins.(ssa.Value); ok && isCtxOpField(v, "Operation") {
			opLoads = append(opLoads, v)
		}
	}
	for _, ret := range returnsOf(hash) {
		v := retVals(ret)[0]
		depSel, depOp := false, false
		// on every path (a key that is built from the selection set in one branch and from
		// something else in the other does not depend on it)
		for _, s := range selCalls {
			if mustDependOn(v, s) {
				depSel = true
			}
		}
		for _, o := range opLoads {
			if mustDependOn(v, o) {
				depOp = true
			}
		}
		site := r.P.pos(retPos(ret))
		r.Check(depSel, rule, fnName(hash), "key depends on the operation's selection set", site,
			"the key is computed from FormatSelectionSet(ctx.Operation.SelectionSet) on this path",
			"a cache key is produced that does not depend on the formatted selection set of the *selected operation*: different operations (e.g. two operations of one document) would share a plan")
		r.Check(depOp, rule, fnName(hash), "key depends on the operation type", site,
			"the key includes ctx.Operation.Operation",
			"the cache key ignores the operation type: `{ x }` and `mutation { x }` format to the same selection set, so a mutation would be served the cached query plan and be sent downstream as a query (or vice versa)")
	}
	// (2) no key is computed after planning: the sequential planner rewrites ctx.Operation
	// in place (helper ids / __typename are injected), so hashing afterwards keys the plan by
	// the sanitised text
	reachesHash := map[*ssa.Function]bool{hash: true}
	for changed := true; changed; {
		changed = false
		for _, fn := range r.P.Funcs {
			if reachesHash[fn] {
				continue
			}
			for _, e := range r.P.CG.Out[fn] {
				if reachesHash[e.Callee] && e.Kind != "param" {
					reachesHash[fn] = true
					changed = true
				}
			}
		}
	}
	var inner []*ssa.Call
	for _, ins := range allInstrs(plan) {
		if c, ok := ins.(*ssa.Call); ok && c.Call.IsInvoke() && c.Call.Method.Name() == "Plan" {
			inner = append(inner, c)
		}
	}
	r.AtLeast(rule, "delegating Plan calls in CachedPlanner.Plan", len(inner), 1)
	for _, ic := range inner {
		after := blockReach(ic.Block())
		okAll := true
		check := func(ins ssa.Instruction) {
			ci, ok := ins.(ssa.CallInstruction)
			if !ok {
				return
			}
			for _, e := range r.P.CG.Out[plan] {
				if e.Site == ci && reachesHash[e.Callee] {
					okAll = false
					r.Bad(rule, fnName(plan), "hash after planning", r.P.pos(ins.Pos()), "the cache key is (re)computed after the delegate planner ran ("+fnName(e.Callee)+"): SequentialPlanner rewrites ctx.Operation in place (injects id/__typename), so the plan is stored under the key of the *sanitised* operation and a later, different operation that spells those helpers out hits it")
				}
			}
		}
		for i := instrIdx(ic) + 1; i < len(ic.Block().Instrs); i++ {
			check(ic.Block().Instrs[i])
		}
		for b := range after {
			for _, ins := range b.Instrs {
				check(ins)
			}
		}
		if okAll {
			r.OK(rule, fnName(plan), "hash after planning", r.P.pos(ic.Pos()), "no path from the delegate Plan call reaches a call that computes a key")
		}
		// (3) the key used to store is the key used to look up
		var lookKeys, storeKeys []ssa.Value
		// the lookup and the store may sit in helpers of the planner (lookup(hk),
		// putLocked(hk, res)): a key that is a helper's parameter is the caller's argument
		var collectKeys func(fn *ssa.Function, subst func(ssa.Value) ssa.Value, depth int)
		collectKeys = func(fn *ssa.Function, subst func(ssa.Value) ssa.Value, depth int) {
			for _, ins := range allInstrs(fn) {
				switch x := ins.(type) {
				case *ssa.Lookup:
					// inside a helper only keys handed in by Plan count: a helper that looks up
					// keys it iterates itself (expiry housekeeping) is not the plan lookup
					if _, isParam := x.Index.(*ssa.Parameter); isCacheMap(x.X) && (depth == 0 || isParam) {
						lookKeys = append(lookKeys, subst(x.Index))
					}
				case *ssa.MapUpdate:
					if _, isParam := x.Key.(*ssa.Parameter); isCacheMap(x.Map) && (depth == 0 || isParam) {
						storeKeys = append(storeKeys, subst(x.Key))
					}
				case *ssa.Call:
					callee := x.Call.StaticCallee()
					if callee == nil || len(callee.Blocks) == 0 || !inModule(callee) || callee == hash || depth >= 3 {
						continue
					}
					takesPlanner := false
					for _, a := range x.Call.Args {
						if namedOf(a.Type()) == plannerPkg+".CachedPlanner" {
							takesPlanner = true
						}
					}
					if !takesPlanner {
						continue
					}
					args := x.Call.Args
					collectKeys(callee, func(v ssa.Value) ssa.Value {
						if p, ok := v.(*ssa.Parameter); ok {
							for i, q := range callee.Params {
								if q == p && i < len(args) {
									return subst(args[i])
								}
							}
						}
						return v
					}, depth+1)
				}
			}
		}
		collectKeys(plan, func(v ssa.Value) ssa.Value { return v }, 0)
		same := len(lookKeys) > 0 && len(storeKeys) > 0
		for _, s := range storeKeys {
			for _, l := range lookKeys {
				if s != l {
					same = false
				}
			}
		}
		if len(lookKeys) > 0 || len(storeKeys) > 0 {
			r.Check(same, rule, fnName(plan), "store key == lookup key", r.P.pos(ic.Pos()),
				"the plan is stored under the very value it was looked up with",
				"the plan is stored under a different key value than the one used for the lookup")
		}
	}
	ruleCacheStoresSuccess(r, plan, inner)
}

// ruleCacheStoresSuccess (R10a, part 4): what is put into the plan cache is the result of a
// delegate Plan call that succeeded — the store lies on the success side of that call's
// error test. A cached failure (a nil plan) is served to every later identical operation
// without an error.
func ruleCacheStoresSuccess(r *Run, plan *ssa.Function, inner []*ssa.Call) {
	const rule = "R10a"
	n := 0
	// storesCache: fn (or a module function it calls statically) writes an entry of the cache
	var storesCache func(fn *ssa.Function, depth int) bool
	storesCache = func(fn *ssa.Function, depth int) bool {
		if depth > 2 {
			return false
		}
		for _, ins := range allInstrs(fn) {
			if mu, ok := ins.(*ssa.MapUpdate); ok && isCacheMap(mu.Map) {
				return true
			}
		}
		for _, e := range r.P.CG.Out[fn] {
			if e.Kind == "static" && e.Callee != fn && storesCache(e.Callee, depth+1) {
				return true
			}
		}
		return false
	}
	for _, ins := range allInstrs(plan) {
		// the store itself, or the call of a helper that makes it (`cp.store(hk, res)`)
		var mu ssa.Instruction
		switch x := ins.(type) {
		case *ssa.MapUpdate:
			if isCacheMap(x.Map) {
				mu = x
			}
		case *ssa.Call:
			if sc := x.Call.StaticCallee(); sc != nil && !x.Call.IsInvoke() && inModule(sc) && storesCache(r.P.declared(sc), 0) {
				mu = x
			}
		}
		if mu == nil {
			continue
		}
		n++
		good := false
		for _, ic := range inner {
			errv := errorOfCall(ic)
			if errv == nil {
				continue
			}
			for _, t := range failureTests(errv) {
				b := mu.Block()
				if (t.ok == b || t.ok.Dominates(b)) && t.fail != b && !blockReach(t.fail)[b] {
					good = true
				}
			}
		}
		r.Check(good, rule, fnName(plan), "only successful plans are cached", r.P.pos(mu.Pos()),
			"the store is reached only after the delegate planner's error was tested and found nil",
			"the cache is written without (or before) testing the error of the delegate planner: a failed planning is cached as a nil plan, the next identical operation gets that nil plan *without* an error and the handler dereferences it")
	}
	r.AtLeast(rule, "stores into the plan cache", n, 1)
}

func isCacheMap(v ssa.Value) bool {
	ld, ok := v.(*ssa.UnOp)
	if !ok || ld.Op != token.MUL {
		return false
	}
	fa, ok := ld.X.(*ssa.FieldAddr)
	if !ok || fieldOf(fa) == nil {
		return false
	}
	n := fieldOf(fa).Name()
	return (n == "cache" || n == "cacheTimers") && namedOf(fa.X.Type()) == plannerPkg+".CachedPlanner"
}

// ---- R13e ---------------------------------------------------------------------------------

func ruleOperationType(r *Run) {
	const rule = "R13e"
	// (1) every value stored into QueryPlanStep.formatter is a fresh formatter
	n := 0
	for _, fn := range r.P.Funcs {
		for _, ins := range allInstrs(fn) {
			st, ok := ins.(*ssa.Store)
			if !ok {
				continue
			}
			fa, ok := st.Addr.(*ssa.FieldAddr)
			if !ok || fieldOf(fa) == nil || fieldOf(fa).Name() != "formatter" || namedOf(fa.X.Type()) != plannerPkg+".QueryPlanStep" {
				continue
			}
			n++
			fresh, why := freshFormatter(st.Val, 0)
			if fresh {
				r.OK(rule, fnName(fn), "step formatter", r.P.pos(st.Pos()), "the step's formatter is a new one (default operation type `query`, no name), configured only through With* builders")
			} else {
				r.Bad(rule, fnName(fn), "step formatter", r.P.pos(st.Pos()), "a plan step gets a formatter that is not freshly created ("+why+"): formatters carry the operation type and name set for the root step, so child steps (follow-up node lookups) would be rendered as `mutation`/`subscription` or with the client's operation name")
			}
		}
	}
	r.AtLeast(rule, "stores to QueryPlanStep.formatter", n, 1)
	// (2) WithOperationType / WithOperationName inside the planner only under len(InsertionPoint)==0
	m := 0
	for _, fn := range r.P.Funcs {
		top := fn
		for top.Parent() != nil {
			top = top.Parent()
		}
		if top.Pkg == nil || top.Pkg.Pkg.Path() != plannerPkg {
			continue
		}
		for _, ins := range allInstrs(fn) {
			c, ok := ins.(*ssa.Call)
			if !ok {
				continue
			}
			cn := calleeName(&c.Call)
			if !strings.HasSuffix(cn, "BufferedFormatter).WithOperationType") && !strings.HasSuffix(cn, "BufferedFormatter).WithOperationName") {
				continue
			}
			if len(c.Call.Args) == 2 {
				if k, isConst := c.Call.Args[1].(*ssa.Const); isConst && k.Value != nil && k.Value.ExactString() == `"query"` {
					continue
				}
			}
			m++
			guarded := false
			for _, i2 := range allInstrs(fn) {
				iff, ok := i2.(*ssa.If)
				if !ok {
					continue
				}
				bo, ok := iff.Cond.(*ssa.BinOp)
				if !ok || !isIntConst(bo.Y, 0) {
					continue
				}
				lc, ok := bo.X.(*ssa.Call)
				if !ok {
					continue
				}
				if b, ok := lc.Call.Value.(*ssa.Builtin); !ok || b.Name() != "len" || !dependsOnField(lc.Call.Args[0], "InsertionPoint") {
					continue
				}
				var side *ssa.BasicBlock
				switch bo.Op {
				case token.EQL:
					side = iff.Block().Succs[0]
				case token.NEQ, token.GTR:
					side = iff.Block().Succs[1]
				}
				if side != nil && len(side.Preds) == 1 && (side == c.Block() || side.Dominates(c.Block())) {
					guarded = true
				}
			}
			what := cn[strings.LastIndex(cn, ".")+1:]
			r.Check(guarded, rule, fnName(fn), what+" on a step", r.P.pos(c.Pos()),
				"applied only where len(step.InsertionPoint) == 0, i.e. to root steps",
				"the client's operation type/name is applied to a step without the `len(InsertionPoint) == 0` guard: child steps would be sent as mutations (C06) or fail validation at the target service (C02)")
		}
	}
	r.AtLeast(rule, "WithOperationType/Name call sites in the planner", m, 2)
	// (4) the executor sends every step under the step's own operation name (set by the planner
	// for root steps only, see (2)) — never under the client's: a follow-up `node(id:)` lookup is
	// an anonymous query, and a service rejects an operationName that its document does not define
	k := 0
	// the value may pass through constructors (`requests.NewRequest(q, vars, name)`): a
	// parameter is traced back to what each caller hands in; what the executor hands in is judged
	type opnLeaf struct {
		fn  *ssa.Function
		v   ssa.Value
		pos token.Pos
	}
	var expand func(fn *ssa.Function, v ssa.Value, pos token.Pos, depth int) []opnLeaf
	expand = func(fn *ssa.Function, v ssa.Value, pos token.Pos, depth int) []opnLeaf {
		if p, isParam := v.(*ssa.Parameter); isParam && depth < 3 {
			idx := -1
			for i, q := range fn.Params {
				if q == p {
					idx = i
				}
			}
			var out []opnLeaf
			for _, e := range r.P.CG.In[fn] {
				if e.Kind == "static" && idx >= 0 && idx < len(e.Site.Common().Args) {
					out = append(out, expand(e.Caller, e.Site.Common().Args[idx], e.Site.Pos(), depth+1)...)
				}
			}
			if len(out) > 0 {
				return out
			}
		}
		return []opnLeaf{{fn, v, pos}}
	}
	for _, fn := range r.P.Funcs {
		if !inModule(fn) {
			continue
		}
		for _, ins := range allInstrs(fn) {
			st, ok := ins.(*ssa.Store)
			if !ok {
				continue
			}
			fa, ok := st.Addr.(*ssa.FieldAddr)
			if !ok || fieldOf(fa) == nil || fieldOf(fa).Name() != "OperationName" || namedOf(fa.X.Type()) != modPath+"/requests.Request" {
				continue
			}
			for _, lf := range expand(fn, st.Val, st.Pos(), 0) {
				if topFn(lf.fn).Pkg == nil || topFn(lf.fn).Pkg.Pkg.Path() != modPath+"/executor" {
					continue
				}
				k++
				good, why := stepOperationName(lf.v, 0)
				r.Check(good, rule, fnName(lf.fn), "operation name of a downstream request", r.P.pos(lf.pos),
					"the request carries QueryPlanStep.OperationName, which the planner sets on root steps only",
					"a downstream request is not sent under its step's own operation name ("+why+"): the client's operation name reaches the follow-up lookups, whose documents are anonymous — the service answers `unknown operation` (C02), or runs the wrong operation")
			}
		}
	}
	r.AtLeast(rule, "downstream requests built by the executor", k, 1)
	// (3) default operation type of a new formatter is the constant query
	nf := r.Anchor(rule, "format.NewFormatter")
	if nf != nil {
		okDef := false
		for _, ins := range allInstrs(nf) {
			if st, ok := ins.(*ssa.Store); ok {
				if fa, ok := st.Addr.(*ssa.FieldAddr); ok && fieldOf(fa) != nil && fieldOf(fa).Name() == "operationType" {
					if k, ok := st.Val.(*ssa.Const); ok && k.Value != nil && k.Value.ExactString() == `"query"` {
						okDef = true
					}
				}
			}
		}
		r.Check(okDef, rule, fnName(nf), "default operation type", r.P.pos(nf.Pos()), "NewFormatter initialises operationType to the constant `query`",
			"a new formatter does not start as `query`: steps that never set an operation type would not be queries")
	}
}

// stepOperationName: v is the OperationName field of a plan step (possibly handed through a
// module helper, all of whose results are).
func stepOperationName(v ssa.Value, depth int) (bool, string) {
	if depth > 4 {
		return false, "too deep"
	}
	switch x := v.(type) {
	case *ssa.UnOp:
		if fa, ok := x.X.(*ssa.FieldAddr); ok && x.Op == token.MUL && fieldOf(fa) != nil {
			if fieldOf(fa).Name() == "OperationName" && namedOf(fa.X.Type()) == plannerPkg+".QueryPlanStep" {
				return true, ""
			}
			return false, "it is " + shortStruct(namedOf(fa.X.Type())) + "." + fieldOf(fa).Name()
		}
	case *ssa.Phi:
		for _, e := range x.Edges {
			if ok, why := stepOperationName(e, depth+1); !ok {
				return false, why
			}
		}
		return true, ""
	case *ssa.Call:
		if sc := x.Call.StaticCallee(); sc != nil && !x.Call.IsInvoke() && inModule(sc) && len(sc.Blocks) > 0 && sc.Signature.Results().Len() == 1 {
			for _, ret := range returnsOf(sc) {
				if ok, why := stepOperationName(retVals(ret)[0], depth+1); !ok {
					return false, "on one path of " + fnName(sc) + " " + why
				}
			}
			return true, ""
		}
		return false, "it is the result of " + calleeDesc(&x.Call)
	}
	return false, "it is " + describeSrc(v)
}

// freshFormatter: v is format.NewBufferedFormatter() possibly followed by With* builder calls.
func freshFormatter(v ssa.Value, depth int) (bool, string) {
	if depth > 6 {
		return false, "builder chain too long"
	}
	c, ok := v.(*ssa.Call)
	if !ok {
		if p, ok := v.(*ssa.Phi); ok {
			for _, e := range p.Edges {
				if ok, why := freshFormatter(e, depth+1); !ok {
					return false, why
				}
			}
			return true, ""
		}
		return false, "value is " + describeSrc(v)
	}
	cn := calleeName(&c.Call)
	if cn == modPath+"/format.NewBufferedFormatter" {
		return true, ""
	}
	if strings.Contains(cn, "format.BufferedFormatter).With") && len(c.Call.Args) >= 1 {
		return freshFormatter(c.Call.Args[0], depth+1)
	}
	return false, "value comes from " + cn
}

func describeSrc(v ssa.Value) string {
	if ld, ok := v.(*ssa.UnOp); ok && ld.Op == token.MUL {
		if fa, ok := ld.X.(*ssa.FieldAddr); ok && fieldOf(fa) != nil {
			return "a copy of field " + fieldOf(fa).Name()
		}
	}
	return fmt.Sprintf("%T", v)
}

// ---- R13m ---------------------------------------------------------------------------------

func ruleInsertionPointFresh(r *Run) {
	const rule = "R13m"
	n := 0
	for _, fn := range r.P.Funcs {
		top := fn
		for top.Parent() != nil {
			top = top.Parent()
		}
		if top.Pkg == nil || top.Pkg.Pkg.Path() != plannerPkg {
			continue
		}
		for _, ins := range allInstrs(fn) {
			st, ok := ins.(*ssa.Store)
			if !ok {
				continue
			}
			fa, ok := st.Addr.(*ssa.FieldAddr)
			if !ok || fieldOf(fa) == nil || fieldOf(fa).Name() != "InsertionPoint" || namedOf(fa.X.Type()) != plannerPkg+".QueryPlanStep" {
				continue
			}
			n++
			ok2, why := freshSlice(st.Val, 0)
			if p, isParam := st.Val.(*ssa.Parameter); isParam && !ok2 {
				// a setter (`step.WithInsertionPoint(ip)`): what is stored is what the callers hand
				// in. Callers inside the planner are held to the rule; callers outside it do not
				// have the planner's working slice (the rule's scope is the planner package)
				pi := -1
				for i, q := range fn.Params {
					if q == p {
						pi = i
					}
				}
				ins := r.P.CG.In[fn]
				ok2 = pi >= 0 && len(ins) > 0
				for _, e := range ins {
					if e.Kind != "static" || pi >= len(e.Site.Common().Args) {
						ok2, why = false, "parameter "+p.Name()+" of a function whose callers cannot all be seen"
						break
					}
					if topFn(e.Caller).Pkg == nil || topFn(e.Caller).Pkg.Pkg.Path() != plannerPkg {
						continue
					}
					if f, w := freshSlice(e.Site.Common().Args[pi], 0); !f {
						ok2, why = false, "parameter "+p.Name()+", given a "+w+" by "+fnName(e.Caller)
					}
				}
			}
			r.Check(ok2, rule, fnName(fn), "QueryPlanStep.InsertionPoint", r.P.pos(st.Pos()),
				"the step's insertion point is a newly made slice (or nil)",
				"a plan step's InsertionPoint shares its backing array with the planner's working slice ("+why+"): extractSelectionSet keeps appending sibling aliases to that slice, overwriting the path of steps already created — their results are stitched into the wrong place")
		}
	}
	r.AtLeast(rule, "stores to QueryPlanStep.InsertionPoint in the planner", n, 1)
}

func freshSlice(v ssa.Value, depth int) (bool, string) {
	if depth > 6 {
		return false, "too deep"
	}
	switch x := v.(type) {
	case *ssa.Const:
		return true, ""
	case *ssa.MakeSlice:
		return true, ""
	case *ssa.Phi:
		for _, e := range x.Edges {
			if ok, why := freshSlice(e, depth+1); !ok {
				return false, why
			}
		}
		return true, ""
	case *ssa.Slice:
		// slicing a fresh allocation (new [n]T) is fresh; slicing anything else aliases it
		if al, ok := x.X.(*ssa.Alloc); ok && al.Parent() == v.Parent() {
			return true, ""
		}
		// … except a full slice expression with capacity 0 (`s[:0:0]`, the head of the clone
		// idiom `append(s[:0:0], s...)`): it has no element and no room, so nothing can be read
		// or written through it and an append to it allocates a new array
		if x.Max != nil && isIntConst(x.Max, 0) {
			return true, ""
		}
		return false, "re-slice of " + shortType(x.X.Type()) + " " + x.X.Name()
	case *ssa.Call:
		if b, ok := x.Call.Value.(*ssa.Builtin); ok && b.Name() == "append" {
			// append(fresh, …) stays fresh only if the first operand is fresh/nil
			return freshSlice(x.Call.Args[0], depth+1)
		}
		// a module helper that builds the copy (`copyPath(path)`): every value it returns is fresh
		if sc := x.Call.StaticCallee(); sc != nil && inModule(sc) && len(sc.Blocks) > 0 && sc.Signature.Results().Len() == 1 {
			rets := returnsOf(sc)
			for _, ret := range rets {
				if ok, why := freshSlice(retVals(ret)[0], depth+1); !ok {
					return false, "result of " + calleeDesc(&x.Call) + ", which returns a " + why
				}
			}
			if len(rets) > 0 {
				return true, ""
			}
		}
		return false, "result of " + calleeDesc(&x.Call)
	case *ssa.Parameter:
		return false, "parameter " + x.Name()
	}
	return false, fmt.Sprintf("%T", v)
}

// ---- R3a.ast: who writes gqlparser AST nodes they did not allocate -------------------------

// astWriteTable: the confirmed sites where an existing AST node (client operation or
// schema definition) is modified in place.
var astWriteTable = map[string]tabEntry{
	"introspection.introspectRemoteSchema/Definition.Types":      {2, "start-up: union members are filled into definitions the function created itself earlier in the same call (looked up again from the schema map)"},
	"introspection.introspectRemoteSchema/Definition.Interfaces": {1, "start-up: interfaces are filled into definitions the function created itself"},
	"merger.(ExtendMergerFunc).Merge/Definition.Types":           {1, "start-up: union members restored from possible types before the merged schema is printed"},
	"merger.(SanitizeNodeMergerFunc).Merge/Definition.Fields":    {1, "start-up: the node field is removed from the merged Query type"},
}

func ruleASTWrites(r *Run) { ruleASTWritesIn("")(r) }

// ruleASTWritesIn restricts the rule to the functions of one package (short name); "" = all.
func ruleASTWritesIn(onlyPkg string) ruleFn {
	return func(r *Run) { astWrites(r, onlyPkg) }
}

func astWrites(r *Run, onlyPkg string) {
	const rule = "R3a.ast"
	n := 0
	var fns []*ssa.Function
	fns = append(fns, r.P.Funcs...)
	sort.Slice(fns, func(i, j int) bool { return fnName(fns[i]) < fnName(fns[j]) })
	// map entries (see below) are judged on the request path only: start-up code builds the
	// schemas it later publishes, helper functions included
	var reqRoots []*ssa.Function
	for _, nm := range []string{"pebbles.(*Gateway).Handler", "pebbles.(*Gateway).queryHandler", "pebbles.(*Gateway).subscriptionHandler", "pebbles.(*subscriptionEntry).Listen", "planner.(SequentialPlanner).Plan", "planner.(*CachedPlanner).Plan", "executor.(*DepthExecutorManager).Execute", "executor.(ParallelExecutor).Execute"} {
		if f := r.P.Fn(nm); f != nil {
			reqRoots = append(reqRoots, f)
		}
	}
	onRequestPath := r.P.CG.Reachable(reqRoots, nil)
	for _, fn := range fns {
		// out-of-scope packages are walked silently so that table credits are consumed
		r.silent = onlyPkg != "" && (topFn(fn).Pkg == nil || shortPkg(topFn(fn).Pkg.Pkg.Path()) != onlyPkg)
		for _, ins := range allInstrs(fn) {
			var fa *ssa.FieldAddr
			var st ssa.Instruction
			suffix := ""
			switch x := ins.(type) {
			case *ssa.Store:
				fa, _ = x.Addr.(*ssa.FieldAddr)
				st = x
			case *ssa.MapUpdate:
				// an entry written into a map that an existing node holds (Schema.Types,
				// Schema.PossibleTypes …): maps are not safe for a concurrent write and read
				if ld, isLd := x.Map.(*ssa.UnOp); isLd && ld.Op == token.MUL {
					fa, _ = ld.X.(*ssa.FieldAddr)
				}
				st = x
				suffix = "[…]"
			}
			if fa == nil || fieldOf(fa) == nil || !strings.HasPrefix(namedOf(fa.X.Type()), "github.com/vektah/gqlparser/v2/ast.") {
				continue
			}
			// fresh: the node was allocated (or copied by value) in this function
			if al, isAl := fa.X.(*ssa.Alloc); isAl && al.Parent() == fn {
				if suffix == "" {
					continue
				}
				// … for a map entry: and the map itself was made here
				madeHere := false
				for _, s2 := range allInstrs(fn) {
					if s3, ok := s2.(*ssa.Store); ok {
						if f3, ok := s3.Addr.(*ssa.FieldAddr); ok && f3.X == fa.X && f3.Field == fa.Field {
							_, madeHere = s3.Val.(*ssa.MakeMap)
						}
					}
				}
				if madeHere {
					continue
				}
			}
			if suffix != "" && len(reqRoots) >= 4 && !onRequestPath[fn] && !onRequestPath[topFn(fn)] {
				continue
			}
			n++
			what := shortStruct(namedOf(fa.X.Type())) + "." + fieldOf(fa).Name() + suffix
			key := fnName(fn) + "/" + what
			if reason, ok := useTable(r, astWriteTable, key); ok {
				r.Tabled(rule, fnName(fn), "write "+what, r.P.pos(st.Pos()), "astWrite", reason)
			} else if suffix != "" {
				r.Bad(rule, fnName(fn), "write "+what, r.P.pos(st.Pos()), "an entry is written into a map held by an existing AST/schema object outside the confirmed start-up sites: the merged schema is shared by all requests, and a Go map that is written while another request reads it aborts the process (`concurrent map read and map write`); what later requests plan against also depends on which request came first — build a local copy instead")
			} else {
				r.Bad(rule, fnName(fn), "write "+what, r.P.pos(st.Pos()), "an existing AST node is modified in place outside the confirmed sites: nodes of the client's operation are shared (a fragment definition is one node for all its spreads; the operation may be planned again or concurrently), so a later use sees the altered node — take a copy (`n := *node`) and modify that")
			}
		}
	}
	r.silent = false
	if onlyPkg == "" {
		r.AtLeast(rule, "in-place AST writes", n, 8)
	} else {
		r.AtLeast(rule, "in-place AST writes (module-wide, reported for "+onlyPkg+" only)", n, 8)
	}
}
