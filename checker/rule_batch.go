package main

// Rules around the HTTP batch handler (C01, C07, C08):
//  R5(i,ii)  results of Executor.Execute pass ScrubFields.Clean before they are returned
//  R5(iii)   exactly one response is written on every path of queryHandler
//  R13h      every Result returned by the per-operation closure carries the closure's index;
//            failure results have Data nil and Errors set
//  R9b/POS   the reducer places results by that index
//  R3c       the per-operation closure writes nothing it captured
//  R5s       a channel used as a semaphore is released on every path (generic)

import (
	"fmt"
	"go/token"
	"go/types"
	"sort"
	"strings"

	"golang.org/x/tools/go/ssa"
)

func isBool(t types.Type) bool {
	b, ok := t.Underlying().(*types.Basic)
	return ok && b.Kind() == types.Bool
}

func isCleanCall(ins ssa.Instruction) (ssa.CallInstruction, bool) {
	ci, ok := ins.(ssa.CallInstruction)
	if !ok {
		return nil, false
	}
	if strings.HasSuffix(calleeName(ci.Common()), "planner.ScrubFields).Clean") {
		return ci, true
	}
	return nil, false
}

// dataEscape is a point at which a tracked data map leaves a function: a store into an object, a
// return, a send, or a call of code that keeps or passes it on. cleaned says whether a Clean
// call (with a planner plan's scrub set) on the map dominates the point inside that function.
type dataEscape struct {
	ins     ssa.Instruction
	cleaned bool
	result  int // for returns: which result carries the map
}

// dataEscapes follows v (a data map) through fn. A function of the module that receives the
// map is looked into: handing the map to it is an escape exactly when the map escapes there
// without having been cleaned there (a builder `newResult(index, data, errs)` stores it into
// the Result it returns; a helper that only reads it does not matter).
func (r *Run) dataEscapes(fn *ssa.Function, v ssa.Value, depth int, badRecv *[]ssa.CallInstruction) []dataEscape {
	seen := map[ssa.Value]bool{}
	var order []ssa.Value
	var pts []ssa.Instruction
	var follow func(v ssa.Value)
	follow = func(v ssa.Value) {
		if seen[v] || v.Referrers() == nil {
			return
		}
		seen[v] = true
		order = append(order, v)
		for _, ref := range *v.Referrers() {
			switch x := ref.(type) {
			case *ssa.Store:
				if x.Val != v {
					continue
				}
				if al, ok := x.Addr.(*ssa.Alloc); ok {
					// spilled to a local: the loads of that cell carry the same map
					for _, i2 := range allInstrs(fn) {
						if ld, ok := i2.(*ssa.UnOp); ok && ld.Op == token.MUL && ld.X == ssa.Value(al) {
							follow(ld)
						}
					}
					// a local captured by a literal is out of sight
					for _, r2 := range *al.Referrers() {
						if _, ok := r2.(*ssa.MakeClosure); ok {
							pts = append(pts, x)
						}
					}
					continue
				}
				pts = append(pts, x)
			case *ssa.MapUpdate:
				if x.Value == v {
					pts = append(pts, x)
				}
			case *ssa.Send:
				if x.X == v {
					pts = append(pts, x)
				}
			case *ssa.Return:
				pts = append(pts, x)
			case *ssa.Phi:
				follow(x)
			case *ssa.MakeInterface:
				follow(x)
			case *ssa.ChangeType:
				follow(x)
			case *ssa.MakeClosure:
				pts = append(pts, x)
			case ssa.CallInstruction:
				if _, ok := isCleanCall(x); ok {
					continue
				}
				c := x.Common()
				if _, isB := c.Value.(*ssa.Builtin); isB {
					continue
				}
				var callee *ssa.Function
				if sc := c.StaticCallee(); sc != nil {
					if d := r.P.declared(sc); inModule(d) && d.Blocks != nil {
						callee = d
					}
				}
				if _, isCall := x.(*ssa.Call); !isCall || callee == nil || depth >= 3 || c.IsInvoke() {
					pts = append(pts, x)
					continue
				}
				for i, a := range c.Args {
					if a != v || i >= len(callee.Params) {
						continue
					}
					for _, e := range r.dataEscapes(callee, callee.Params[i], depth+1, badRecv) {
						if !e.cleaned {
							pts = append(pts, x)
							break
						}
					}
				}
			}
		}
	}
	follow(v)
	var cleans []ssa.CallInstruction
	for _, sv := range order {
		for _, ref := range *sv.Referrers() {
			if ci, ok := isCleanCall(ref); ok && len(ci.Common().Args) >= 2 && ci.Common().Args[1] == sv {
				if !r.cleanReceiverOK(ci) {
					if badRecv != nil {
						*badRecv = append(*badRecv, ci)
					}
					continue
				}
				cleans = append(cleans, ci)
			}
		}
	}
	var out []dataEscape
	done := map[ssa.Instruction]bool{}
	for _, p := range pts {
		if done[p] {
			continue
		}
		done[p] = true
		e := dataEscape{ins: p}
		for _, c := range cleans {
			if instrDominates(c, p) {
				e.cleaned = true
			}
		}
		if ret, ok := p.(*ssa.Return); ok {
			for i, rv := range ret.Results {
				if seen[rv] || seen[unwrap(rv)] {
					e.result = i
				}
			}
		}
		out = append(out, e)
	}
	return out
}

// ruleExecuteThenClean: wherever the data returned by Executor.Execute leaves the code that
// plays the given roles (Result.Data / Response.Data store, return operand, hand-over to other
// code), a Clean call on that very map dominates that point. The Execute call is looked for
// in the role function and in the functions of its package it calls (the body of the
// per-operation closure may live in a method); data a helper returns unscrubbed is followed
// into the callers of that helper.
func ruleExecuteThenClean(fnNames ...string) ruleFn {
	return func(r *Run) {
		const rule = "R5.clean"
		n := 0
		for _, role := range fnNames {
			roots := r.AnchorRole(rule, role)
			if len(roots) == 0 {
				continue
			}
			isRoot := map[*ssa.Function]bool{}
			for _, f := range roots {
				isRoot[f] = true
			}
			pkg := topFn(roots[0]).Pkg
			region := r.P.CG.Reachable(roots, func(e *Edge) bool { return e.Kind != "static" || topFn(e.Callee).Pkg != pkg })
			var fns []*ssa.Function
			for f := range region {
				fns = append(fns, f)
			}
			sort.Slice(fns, func(i, j int) bool { return fnName(fns[i]) < fnName(fns[j]) })
			reportedRecv := map[ssa.CallInstruction]bool{}
			var settle func(fn *ssa.Function, v ssa.Value, origin *ssa.Call, depth int) int
			settle = func(fn *ssa.Function, v ssa.Value, origin *ssa.Call, depth int) int {
				name := fnName(fn)
				var badRecv []ssa.CallInstruction
				escapes := r.dataEscapes(fn, v, 0, &badRecv)
				for _, ci := range badRecv {
					if !reportedRecv[ci] {
						reportedRecv[ci] = true
						r.Bad(rule, fnName(ci.Parent()), "scrub set used by Clean", r.P.pos(ci.Pos()), "Clean is called on a ScrubFields that is not the one of the plan the planner made for this operation (a plan assembled on the spot without it, or a value the rule cannot trace to Planner.Plan): the helper fields the planner added are not in it, so nothing is removed and they reach the client")
					}
				}
				cnt := 0
				for _, e := range escapes {
					site := r.P.pos(e.ins.Pos())
					if site == "-" {
						site = r.P.pos(origin.Pos())
					}
					if ret, isRet := e.ins.(*ssa.Return); isRet && !isRoot[fn] && !e.cleaned && depth < 3 {
						// handed back to the callers of this helper unscrubbed: their turn
						up := 0
						for _, in := range r.P.CG.In[fn] {
							if in.Kind != "static" || !region[in.Caller] {
								continue
							}
							call, ok := in.Site.(*ssa.Call)
							if !ok {
								continue
							}
							var rv ssa.Value = call
							if len(ret.Results) > 1 {
								rv = nil
								for _, ref := range *call.Referrers() {
									if ex, ok := ref.(*ssa.Extract); ok && ex.Index == e.result {
										rv = ex
									}
								}
							}
							if rv == nil {
								continue
							}
							up += settle(in.Caller, rv, origin, depth+1)
						}
						if up > 0 {
							cnt += up
							continue
						}
					}
					cnt++
					if e.cleaned {
						r.OK(rule, name, "executed data leaves function", site, "ScrubFields.Clean was applied to this very value on every path to this point")
					} else {
						r.Bad(rule, name, "executed data leaves function", site, "data produced by Executor.Execute reaches the response without passing ScrubFields.Clean: helper id/__typename fields fetched for stitching would leak to the client")
					}
				}
				return cnt
			}
			for _, fn := range fns {
				name := fnName(fn)
				for _, ins := range allInstrs(fn) {
					call, ok := ins.(*ssa.Call)
					if !ok || !call.Call.IsInvoke() || call.Call.Method.Name() != "Execute" || namedOf(call.Call.Value.Type()) != modPath+"/executor.Executor" {
						continue
					}
					var data ssa.Value
					for _, ref := range *call.Referrers() {
						if ex, ok := ref.(*ssa.Extract); ok && ex.Index == 0 {
							data = ex
						}
					}
					if data == nil {
						r.Bad(rule, name, "Execute result", r.P.pos(call.Pos()), "the data returned by Executor.Execute is not used")
						continue
					}
					got := settle(fn, data, call, 0)
					if got == 0 {
						r.Bad(rule, name, "Execute result", r.P.pos(call.Pos()), "could not find where the executed data leaves the function")
					}
					n += got
				}
			}
		}
		r.AtLeast(rule, "exits of executed data", n, len(fnNames))
	}
}

// cellRoot resolves a captured variable seen from a literal to the Alloc of the function that
// declares it.
func cellRoot(cell ssa.Value) *ssa.Alloc {
	for depth := 0; depth < 6; depth++ {
		switch x := cell.(type) {
		case *ssa.Alloc:
			return x
		case *ssa.FreeVar:
			lit := x.Parent()
			k := -1
			for i, fv := range lit.FreeVars {
				if fv == x {
					k = i
				}
			}
			if k < 0 || lit.Parent() == nil {
				return nil
			}
			var next ssa.Value
			for _, ins := range allInstrs(lit.Parent()) {
				if mc, ok := ins.(*ssa.MakeClosure); ok && mc.Fn == ssa.Value(lit) && k < len(mc.Bindings) {
					next = mc.Bindings[k]
				}
			}
			if next == nil {
				return nil
			}
			cell = next
		default:
			return nil
		}
	}
	return nil
}

// plannerPlan: v is a *planner.QueryPlan that came out of Planner.Plan — directly, through a
// local or captured variable, a struct field every store to which is such a plan, a parameter
// every caller fills with one — or a QueryPlan built on the spot whose ScrubFields field is
// filled from such a plan. The scrub set of any other plan says nothing about the helper
// fields the planner added to the operation that was executed.
func (r *Run) plannerPlan(v ssa.Value, depth int) bool {
	if depth > 6 {
		return false
	}
	v = unwrap(v)
	all := func(vals []ssa.Value, f func(ssa.Value) bool) bool {
		if len(vals) == 0 {
			return false
		}
		for _, x := range vals {
			if !f(x) {
				return false
			}
		}
		return true
	}
	next := func(x ssa.Value) bool { return r.plannerPlan(x, depth+1) }
	switch x := v.(type) {
	case *ssa.Extract:
		c, ok := x.Tuple.(*ssa.Call)
		if !ok || x.Index != 0 {
			return false
		}
		if c.Call.IsInvoke() {
			return c.Call.Method.Name() == "Plan" && namedOf(c.Call.Value.Type()) == plannerPkg+".Planner"
		}
		return r.plannerPlanCall(c, 0, depth)
	case *ssa.Call:
		return r.plannerPlanCall(x, 0, depth)
	case *ssa.Phi:
		return all(x.Edges, next)
	case *ssa.Parameter:
		var args []ssa.Value
		fn := x.Parent()
		k := -1
		for i, p := range fn.Params {
			if p == x {
				k = i
			}
		}
		for _, e := range r.P.CG.In[fn] {
			if e.Kind == "param" {
				continue
			}
			if e.Kind != "static" || k < 0 || k >= len(e.Site.Common().Args) {
				return false
			}
			args = append(args, e.Site.Common().Args[k])
		}
		return all(args, next)
	case *ssa.Alloc:
		// &planner.QueryPlan{…, ScrubFields: <a planner plan's set>}
		if namedOf(x.Type()) != plannerPkg+".QueryPlan" {
			return false
		}
		var vals []ssa.Value
		for _, ins := range allInstrs(x.Parent()) {
			if st, ok := ins.(*ssa.Store); ok {
				if fa, ok := st.Addr.(*ssa.FieldAddr); ok && fa.X == ssa.Value(x) && fieldOf(fa) != nil && fieldOf(fa).Name() == "ScrubFields" {
					vals = append(vals, st.Val)
				}
			}
		}
		return all(vals, func(y ssa.Value) bool { return r.plannerScrubSet(y, depth+1) })
	case *ssa.UnOp:
		if x.Op != token.MUL {
			return false
		}
		switch a := x.X.(type) {
		case *ssa.Alloc, *ssa.FreeVar:
			root := cellRoot(a)
			if root == nil {
				return false
			}
			var vals []ssa.Value
			for _, st := range storesTo(root) {
				vals = append(vals, st.Val)
			}
			return all(vals, next)
		case *ssa.FieldAddr:
			f := fieldOf(a)
			if f == nil {
				return false
			}
			var vals []ssa.Value
			for _, fn := range r.P.Funcs {
				for _, ins := range allInstrs(fn) {
					if st, ok := ins.(*ssa.Store); ok {
						if fb, ok := st.Addr.(*ssa.FieldAddr); ok && fieldOf(fb) == f {
							vals = append(vals, st.Val)
						}
					}
				}
			}
			return all(vals, next)
		}
	}
	return false
}

func (r *Run) plannerPlanCall(c *ssa.Call, idx, depth int) bool {
	sc := c.Call.StaticCallee()
	if sc == nil {
		return false
	}
	f := r.P.declared(sc)
	if !inModule(f) || f.Blocks == nil {
		return false
	}
	rets := returnsOf(f)
	if len(rets) == 0 {
		return false
	}
	for _, ret := range rets {
		vals := retVals(ret)
		if idx >= len(vals) {
			return false
		}
		if isNilConst(unwrap(vals[idx])) {
			continue
		}
		if !r.plannerPlan(vals[idx], depth+1) {
			return false
		}
	}
	return true
}

// plannerScrubSet: v is the ScrubFields of a plan that came out of the planner.
func (r *Run) plannerScrubSet(v ssa.Value, depth int) bool {
	if depth > 6 {
		return false
	}
	v = unwrap(v)
	switch x := v.(type) {
	case *ssa.Phi:
		for _, e := range x.Edges {
			if !r.plannerScrubSet(e, depth+1) {
				return false
			}
		}
		return len(x.Edges) > 0
	case *ssa.UnOp:
		if x.Op != token.MUL {
			return false
		}
		switch a := x.X.(type) {
		case *ssa.FieldAddr:
			if f := fieldOf(a); f != nil && f.Name() == "ScrubFields" && namedOf(a.X.Type()) == plannerPkg+".QueryPlan" {
				return r.plannerPlan(a.X, depth+1)
			}
		case *ssa.Alloc, *ssa.FreeVar:
			root := cellRoot(a)
			if root == nil {
				return false
			}
			sts := storesTo(root)
			for _, st := range sts {
				if !r.plannerScrubSet(st.Val, depth+1) {
					return false
				}
			}
			return len(sts) > 0
		}
	}
	return false
}

// cleanReceiverOK: the ScrubFields a Clean call is made on belongs to a plan of the planner.
func (r *Run) cleanReceiverOK(ci ssa.CallInstruction) bool {
	args := ci.Common().Args
	return len(args) >= 1 && r.plannerScrubSet(args[0], 0)
}

// rulePrepareResponse: subscription events — whatever prepareResponse returns carries scrubbed
// data: the upstream response itself after Clean(resp.Data), or a new Response whose Data is
// the result of the per-event executor (scrubbed there, R5.clean on executorFn), the upstream
// data after Clean(resp.Data), or nothing.
func rulePrepareResponse(r *Run) {
	const rule = "R5.clean"
	name := "pebbles.(*subscriptionEntry).prepareResponse"
	fn := r.Anchor(rule, name)
	if fn == nil || len(fn.Params) != 2 {
		return
	}
	execFns := map[*ssa.Function]bool{}
	for _, f := range r.RoleFuncs("executorFn") {
		execFns[f] = true
	}
	n := 0
	// judge looks at what f returns. f is prepareResponse, or a function of the module
	// prepareResponse returns the result of (`return se.stitch(resp)`), which is handed the
	// upstream response as its parameter resp (nil: it is not handed it); cleanedOnEntry: a
	// Clean(resp.Data) has already run on every path to the call.
	var judge func(f *ssa.Function, resp *ssa.Parameter, cleanedOnEntry bool, depth int)
	judge = func(f *ssa.Function, resp *ssa.Parameter, cleanedOnEntry bool, depth int) {
		fname := fnName(f)
		isRespData := func(v ssa.Value) bool {
			ld, ok := unwrap(v).(*ssa.UnOp)
			if !ok || ld.Op != token.MUL || resp == nil {
				return false
			}
			fa, ok := ld.X.(*ssa.FieldAddr)
			return ok && fa.X == ssa.Value(resp) && fieldOf(fa) != nil && fieldOf(fa).Name() == "Data"
		}
		// Clean(resp.Data) dominating at: the map is scrubbed in place, so every later read of
		// resp.Data sees the scrubbed map
		cleanedBefore := func(at ssa.Instruction) bool {
			if cleanedOnEntry {
				return true
			}
			for _, ins := range allInstrs(f) {
				ci, ok := isCleanCall(ins)
				if !ok || len(ci.Common().Args) < 2 {
					continue
				}
				if isRespData(ci.Common().Args[1]) && instrDominates(ci, at) && r.cleanReceiverOK(ci) {
					return true
				}
			}
			return false
		}
		// fromExecutor: v is the data result of a call that can only run a per-event executor
		fromExecutor := func(v ssa.Value) bool {
			ex, ok := unwrap(v).(*ssa.Extract)
			if !ok || ex.Index != 0 {
				return false
			}
			call, ok := ex.Tuple.(*ssa.Call)
			if !ok {
				return false
			}
			k := 0
			for _, e := range r.P.CG.Out[f] {
				if e.Site == ssa.CallInstruction(call) {
					if !execFns[e.Callee] {
						return false
					}
					k++
				}
			}
			if _, unresolved := r.P.CG.Unresolved[call]; unresolved {
				return false
			}
			return k > 0
		}
		var dataOK func(v ssa.Value, at ssa.Instruction, depth int) (bool, string)
		dataOK = func(v ssa.Value, at ssa.Instruction, depth int) (bool, string) {
			v = unwrap(v)
			switch {
			case isNilConst(v):
				return true, "no data"
			case fromExecutor(v):
				return true, "data produced by the per-event executor, which scrubs what it returns"
			case isRespData(v):
				if cleanedBefore(at) {
					return true, "Clean(resp.Data) dominates this return"
				}
				return false, ""
			}
			if p, ok := v.(*ssa.Phi); ok && depth < 4 {
				for _, e := range p.Edges {
					if ok, _ := dataOK(e, at, depth+1); !ok {
						return false, ""
					}
				}
				return true, "every alternative is scrubbed data"
			}
			return false, ""
		}
		for _, ret := range returnsOf(f) {
			var cands []ssa.Value
			if p, ok := retVals(ret)[0].(*ssa.Phi); ok {
				cands = append(cands, p.Edges...)
			} else {
				cands = []ssa.Value{retVals(ret)[0]}
			}
			for _, v := range cands {
				v = unwrap(v)
				site := r.P.pos(retPos(ret))
				switch x := v.(type) {
				case *ssa.Parameter:
					if x != resp || resp == nil {
						r.Bad(rule, fname, "response returned", site, fname+" returns something the rule cannot trace to scrubbed data")
						continue
					}
					n++
					r.Check(cleanedBefore(ret), rule, fname, "upstream response forwarded", site,
						"Clean(resp.Data) dominates the return of the upstream response",
						"an upstream event is forwarded to the client without ScrubFields.Clean on its data")
				case *ssa.Alloc:
					// a Response built here: what is stored into its Data field
					n++
					ok, why := true, "the new Response carries no data"
					for _, ins := range allInstrs(f) {
						st, isSt := ins.(*ssa.Store)
						if !isSt {
							continue
						}
						fa, isFa := st.Addr.(*ssa.FieldAddr)
						if !isFa || fa.X != ssa.Value(x) {
							if isSt && st.Addr == ssa.Value(x) {
								// `*new = *resp`: a whole-struct copy
								ok, why = cleanedBefore(ret), "copy of the upstream response after Clean(resp.Data)"
							}
							continue
						}
						if fieldOf(fa) == nil || fieldOf(fa).Name() != "Data" {
							continue
						}
						if o, w := dataOK(st.Val, ret, 0); o {
							why = w
						} else {
							ok = false
						}
					}
					r.Check(ok, rule, fname, "new response returned", site,
						"the Data of the Response built here is scrubbed: "+why,
						fname+" returns a new Response whose Data is the upstream event's data (or something else the rule cannot trace to the per-event executor) without ScrubFields.Clean on every path: helper id/__typename fields fetched for stitching reach the subscriber")
				case *ssa.Call:
					// the result of a function of the module: judged by what that function returns
					var d *ssa.Function
					if sc := x.Call.StaticCallee(); sc != nil {
						d = r.P.declared(sc)
					}
					if d == nil || !inModule(d) || d.Blocks == nil || d == f || depth >= 3 || d.Signature.Results().Len() != 1 || len(d.Params) != len(x.Call.Args) {
						r.Bad(rule, fname, "response returned", site, fname+" returns something the rule cannot trace to scrubbed data ("+v.String()+")")
						continue
					}
					var handed *ssa.Parameter
					for k, a := range x.Call.Args {
						if resp != nil && unwrap(a) == ssa.Value(resp) {
							handed = d.Params[k]
						}
					}
					judge(d, handed, handed != nil && cleanedBefore(x), depth+1)
				default:
					if isNilConst(v) {
						continue
					}
					r.Bad(rule, fname, "response returned", site, fname+" returns something the rule cannot trace to scrubbed data ("+v.String()+")")
				}
			}
		}
	}
	judge(fn, fn.Params[1], false, 0)
	r.AtLeast(rule, "returns of prepareResponse", n, 1)
}

// ruleRespondOnce: every path through queryHandler writes the response exactly once. A call of
// a helper that itself writes exactly once on each of its paths counts as one write
// (`rejectRequest(w, err)` for `emitError(w, 422, err)`); a callee from which a response write
// can be reached but whose number of writes the rule cannot pin down is a violation.
func ruleRespondOnce(r *Run) {
	const rule = "R5.once"
	name := "pebbles.(*Gateway).queryHandler"
	fn := r.Anchor(rule, name)
	if fn == nil {
		return
	}
	isPrimitive := func(c *ssa.CallCommon) bool {
		switch calleeName(c) {
		case modPath + ".emitError", "(" + modPath + ".Results).Emit":
			return true
		}
		return false
	}
	// functions from which a primitive response write is reachable
	reaches := map[*ssa.Function]bool{}
	reachesWrite := func(f *ssa.Function) bool {
		if v, ok := reaches[f]; ok {
			return v
		}
		res := false
		for g := range r.P.CG.Reachable([]*ssa.Function{f}, nil) {
			for _, ins := range allInstrs(g) {
				if ci, ok := ins.(ssa.CallInstruction); ok && isPrimitive(ci.Common()) {
					res = true
				}
			}
		}
		reaches[f] = res
		return res
	}
	var unclear []string
	type edgeAt struct {
		b *ssa.BasicBlock
		k int
	}
	// told: a helper whose number of writes differs between its paths but is told to the caller
	// by one of its results — `rs, ok := parseOrReject(w, r); if !ok { return }` with a helper
	// that answers on the paths returning false and is silent on those returning true. n[c] is
	// the exact number of writes on the paths of class c (0: false / nil, 1: true / non-nil).
	type told struct {
		idx int
		n   [2]int
	}
	toldHelpers := map[string]string{}
	var count func(f *ssa.Function, depth int, skipRet func(*ssa.Return) bool) (mn, mx int, cyc bool, ends int)
	// exact number of writes of a helper, or -1
	exact := func(f *ssa.Function, depth int) int {
		if depth > 4 || f.Blocks == nil {
			return -1
		}
		mn, mx, cyc, _ := count(f, depth+1, nil)
		if cyc || mn != mx {
			return -1
		}
		return mn
	}
	// classOf: the class of the idx-th result of a return, or -1
	classOf := func(ret *ssa.Return, idx int) int {
		vals := retVals(ret)
		if idx >= len(vals) {
			return -1
		}
		v := vals[idx]
		if isBool(v.Type()) {
			if c, ok := v.(*ssa.Const); ok && c.Value != nil {
				if c.Value.ExactString() == "true" {
					return 1
				}
				return 0
			}
			return -1
		}
		if !isErrorish(v.Type()) {
			return -1
		}
		if isNilConst(v) {
			return 0
		}
		for _, t := range failureTests(v) {
			if len(t.fail.Preds) == 1 && (t.fail == ret.Block() || t.fail.Dominates(ret.Block())) {
				return 1
			}
		}
		return -1
	}
	toldBy := func(f *ssa.Function, depth int) *told {
		if depth > 4 || f.Blocks == nil {
			return nil
		}
		res := f.Signature.Results()
		for idx := 0; idx < res.Len(); idx++ {
			seen := [2]bool{}
			ok := true
			for _, ret := range returnsOf(f) {
				c := classOf(ret, idx)
				if c < 0 {
					ok = false
					break
				}
				seen[c] = true
			}
			if !ok || !seen[0] || !seen[1] {
				continue
			}
			t := &told{idx: idx}
			for c := 0; c < 2 && ok; c++ {
				other := 1 - c
				mn, mx, cyc, _ := count(f, depth+1, func(ret *ssa.Return) bool { return classOf(ret, idx) == other })
				if cyc || mn != mx {
					ok = false
				}
				t.n[c] = mn
			}
			if ok {
				return t
			}
		}
		return nil
	}
	// the branch on the told result: the If that ends the block of the call (or a block reached
	// from it in a straight line), whose condition is that result and nothing else. succ[k] is
	// the class known on the k-th edge.
	branchOn := func(c *ssa.Call, idx int) (*ssa.If, [2]int, bool) {
		var none [2]int
		var ex *ssa.Extract
		for _, ref := range *c.Referrers() {
			if e, ok := ref.(*ssa.Extract); ok && e.Index == idx {
				if ex != nil {
					return nil, none, false
				}
				ex = e
			}
		}
		if ex == nil {
			return nil, none, false
		}
		b := c.Block()
		for len(b.Succs) == 1 && len(b.Succs[0].Preds) == 1 && b.Succs[0] != c.Block() {
			b = b.Succs[0]
		}
		iff, ok := b.Instrs[len(b.Instrs)-1].(*ssa.If)
		if !ok {
			return nil, none, false
		}
		cond, flip := iff.Cond, false
		for {
			u, ok := cond.(*ssa.UnOp)
			if !ok || u.Op != token.NOT {
				break
			}
			cond, flip = u.X, !flip
		}
		succ := [2]int{1, 0}
		switch x := cond.(type) {
		case *ssa.Extract:
			if x != ex || !isBool(x.Type()) {
				return nil, none, false
			}
		case *ssa.BinOp:
			var subj ssa.Value
			switch {
			case isNilConst(x.Y):
				subj = x.X
			case isNilConst(x.X):
				subj = x.Y
			}
			if subj != ssa.Value(ex) || x.Op != token.NEQ && x.Op != token.EQL {
				return nil, none, false
			}
			if x.Op == token.EQL {
				flip = !flip
			}
		default:
			return nil, none, false
		}
		if flip {
			succ = [2]int{0, 1}
		}
		return iff, succ, true
	}
	count = func(caller *ssa.Function, depth int, skipRet func(*ssa.Return) bool) (int, int, bool, int) {
		// calls whose number of writes is read off the branch on their result
		onEdge := map[edgeAt]int{}
		byBranch := map[ssa.Instruction]bool{}
		for _, e := range r.P.CG.Out[caller] {
			c, isCall := e.Site.(*ssa.Call)
			if !isCall || e.Kind != "static" || isPrimitive(c.Common()) || !reachesWrite(e.Callee) || exact(e.Callee, depth) >= 0 {
				continue
			}
			t := toldBy(e.Callee, depth)
			if t == nil {
				continue
			}
			iff, succ, ok := branchOn(c, t.idx)
			if !ok {
				continue
			}
			byBranch[c] = true
			toldHelpers[fnName(e.Callee)] = fmt.Sprintf("%s, whose result no. %d tells what it did (false/nil: %d write(s), true/non-nil: %d) and is branched on right after the call", fnName(e.Callee), t.idx+1, t.n[0], t.n[1])
			for k := 0; k < 2; k++ {
				onEdge[edgeAt{iff.Block(), k}] += t.n[succ[k]]
			}
		}
		weight := func(i ssa.Instruction) int {
			ci, ok := i.(ssa.CallInstruction)
			if !ok || byBranch[i] {
				return 0
			}
			if isPrimitive(ci.Common()) {
				if _, isCall := i.(*ssa.Call); !isCall && depth > 0 {
					unclear = append(unclear, "deferred/spawned write in "+fnName(caller))
				}
				return 1
			}
			total := 0
			for _, e := range r.P.CG.Out[caller] {
				if e.Site != ci || e.Kind == "param" || !reachesWrite(e.Callee) {
					continue
				}
				n := -1
				if _, isCall := i.(*ssa.Call); isCall && e.Kind == "static" {
					n = exact(e.Callee, depth)
				}
				if n < 0 {
					unclear = append(unclear, fnName(e.Callee)+" (called at "+r.P.pos(i.Pos())+")")
					n = 1
				}
				total += n
			}
			return total
		}
		return pathCountX(caller.Blocks[0], 0, nil, weight, func(b *ssa.BasicBlock, k int) int { return onEdge[edgeAt{b, k}] }, skipRet)
	}
	mn, mx, cyc, ends := count(fn, 0, nil)
	if len(unclear) > 0 {
		sort.Strings(unclear)
		r.Bad(rule, name, "responses per request", r.P.pos(fn.Pos()), "a response write is reachable through "+unclear[0]+", and the rule cannot tell how many times it writes (not a plain helper that writes exactly once on each of its paths): exactly one of emitError/Emit is required on every path of the handler")
	} else if cyc || mn != 1 || mx != 1 {
		r.Bad(rule, name, "responses per request", r.P.pos(fn.Pos()), fmt.Sprintf("a path through the handler writes the response %d..%d times (cyclic=%v); exactly one of emitError/Emit is required on every path", mn, mx, cyc))
	} else {
		how := "directly or through a helper that writes exactly once"
		if len(toldHelpers) > 0 {
			var hs []string
			for _, h := range toldHelpers {
				hs = append(hs, h)
			}
			sort.Strings(hs)
			how += ", or through " + strings.Join(hs, "; ")
		}
		r.OK(rule, name, "responses per request", r.P.pos(fn.Pos()), fmt.Sprintf("each of the %d exit paths calls exactly one of emitError / Results.Emit (%s)", ends, how))
	}
	// status codes: 422 only from the Parse-failure branch, via emitError. The emitError calls
	// are looked for in the handler and in the helpers it calls directly (status handed on as a
	// constant or as the helper's parameter); where such a call sits is judged at the call site
	// inside the handler.
	type emitSite struct {
		at   []ssa.Instruction // the chain of calls that leads to it: in queryHandler, in the helper called there, …, the emitError call itself
		call ssa.CallInstruction
		code ssa.Value
	}
	var emits []emitSite
	var collect func(f *ssa.Function, chain []ssa.Instruction, bind map[*ssa.Parameter]ssa.Value, depth int)
	collect = func(f *ssa.Function, chain []ssa.Instruction, bind map[*ssa.Parameter]ssa.Value, depth int) {
		for _, ins := range allInstrs(f) {
			ci, ok := ins.(ssa.CallInstruction)
			if !ok {
				continue
			}
			here := append(append([]ssa.Instruction{}, chain...), ins)
			if calleeName(ci.Common()) == modPath+".emitError" && len(ci.Common().Args) >= 2 {
				code := ci.Common().Args[1]
				if p, isP := code.(*ssa.Parameter); isP && bind[p] != nil {
					code = bind[p]
				}
				emits = append(emits, emitSite{here, ci, code})
				continue
			}
			if depth >= 3 {
				continue
			}
			for _, e := range r.P.CG.Out[f] {
				if e.Site != ci || e.Kind != "static" || e.Callee == f || !reachesWrite(e.Callee) || isPrimitive(ci.Common()) {
					continue
				}
				b2 := map[*ssa.Parameter]ssa.Value{}
				for k, a := range ci.Common().Args {
					if k < len(e.Callee.Params) {
						if p, isP := a.(*ssa.Parameter); isP && bind[p] != nil {
							a = bind[p]
						}
						b2[e.Callee.Params[k]] = a
					}
				}
				collect(e.Callee, here, b2, depth+1)
			}
		}
	}
	collect(fn, nil, nil, 0)
	// on the failure side of a requests.Parse call of its own function
	afterFailedParse := func(ins ssa.Instruction) bool {
		for _, i2 := range allInstrs(ins.Parent()) {
			c2, ok := i2.(*ssa.Call)
			if !ok || calleeName(&c2.Call) != modPath+"/requests.Parse" {
				continue
			}
			for _, ref := range *c2.Referrers() {
				if ex, ok := ref.(*ssa.Extract); ok && isErrorish(ex.Type()) {
					for _, t := range failureTests(ex) {
						if len(t.fail.Preds) == 1 && (t.fail == ins.Block() || t.fail.Dominates(ins.Block())) {
							return true
						}
					}
				}
			}
		}
		return false
	}
	for _, es := range emits {
		code, isC := es.code.(*ssa.Const)
		good := isC && code.Value != nil && code.Value.ExactString() == "422"
		// must be on the failure side of requests.Parse: the emitError call itself when the
		// decoding sits in the same helper, or one of the calls that lead to it
		onFail := false
		for _, at := range es.at {
			if afterFailedParse(at) {
				onFail = true
			}
		}
		if good && onFail {
			r.OK(rule, name, "emitError(422)", r.P.pos(es.call.Pos()), "status 422 is produced only on the failure side of requests.Parse")
		} else {
			r.Bad(rule, name, "emitError(422)", r.P.pos(es.call.Pos()), "emitError is not (only) the 422 answer to an undecodable request")
		}
	}
	// and emitError writes the status it was asked to write: the code handed to WriteHeader is
	// its own parameter, not something worked out from the error (a rule such as "anything
	// that is not a DecodeError is our own failure: 500" turns a malformed request into a 500
	// whenever an error reaches it unmarked)
	// The header may be written by a helper emitError shares with Emit (`writeJSON(w, code, resp)`):
	// the status is followed from emitError's parameter through the arguments of the module
	// functions it calls to the WriteHeader call, wherever that sits.
	if ee := r.P.Fn("pebbles.emitError"); ee != nil && len(ee.Params) >= 2 {
		asked := ee.Params[1]
		found := 0
		onPath := map[*ssa.Function]bool{}
		var follow func(f *ssa.Function, bind map[ssa.Value]ssa.Value, depth int)
		follow = func(f *ssa.Function, bind map[ssa.Value]ssa.Value, depth int) {
			if onPath[f] || depth > 4 {
				return
			}
			onPath[f] = true
			defer delete(onPath, f)
			resolve := func(v ssa.Value) ssa.Value {
				v = viaCell(unwrap(v))
				if b, ok := bind[v]; ok {
					return b
				}
				return v
			}
			for _, ins := range allInstrs(f) {
				ci, ok := ins.(ssa.CallInstruction)
				if !ok {
					continue
				}
				args := ci.Common().Args
				if cn := calleeName(ci.Common()); strings.HasSuffix(cn, "ResponseWriter.WriteHeader") || strings.HasSuffix(cn, "ResponseWriter).WriteHeader") {
					if len(args) == 0 {
						continue
					}
					found++
					good, bad := "WriteHeader receives emitError's own code parameter", "emitError works out the status itself instead of writing the one its caller chose: the 422 of an undecodable request can turn into another status depending on what kind of error value reached it"
					if f != ee {
						good = "WriteHeader in " + fnName(f) + " receives emitError's own code parameter, handed on unchanged"
						bad = "the status " + fnName(f) + " writes for emitError is not the code emitError was given, handed on unchanged: " + bad
					}
					r.Check(resolve(args[len(args)-1]) == ssa.Value(asked), rule, fnName(ee), "status written is the status asked for", r.P.pos(ins.Pos()), good, bad)
					continue
				}
				for _, e := range r.P.CG.Out[f] {
					if e.Site != ci || e.Kind != "static" || e.Callee.Blocks == nil {
						continue
					}
					b2 := map[ssa.Value]ssa.Value{}
					for k, a := range args {
						if k < len(e.Callee.Params) {
							b2[e.Callee.Params[k]] = resolve(a)
						}
					}
					follow(e.Callee, b2, depth+1)
				}
			}
		}
		follow(ee, map[ssa.Value]ssa.Value{}, 0)
		if found == 0 {
			r.Bad(rule, fnName(ee), "status written is the status asked for", r.P.pos(ee.Pos()), "no WriteHeader call is found in emitError or in the module functions it calls: the status its caller chose is not written (the answer goes out as 200, or with a status the rule cannot see)")
		}
	}
}

// amrSite finds the AsyncMapReduce call in fn and resolves its map and reduce closures.
func (r *Run) amrSite(fn *ssa.Function) (call *ssa.Call, mapF, redF *ssa.Function) {
	for _, ins := range allInstrs(fn) {
		c, ok := ins.(*ssa.Call)
		if !ok {
			continue
		}
		sc := c.Call.StaticCallee()
		if sc == nil || fnName(origin(sc)) != "common.AsyncMapReduce" || len(c.Call.Args) != 4 {
			continue
		}
		ms, _ := r.P.CG.funcValues(c.Call.Args[2], map[ssa.Value]bool{})
		rs, _ := r.P.CG.funcValues(c.Call.Args[3], map[ssa.Value]bool{})
		if len(ms) == 1 && len(rs) == 1 {
			return c, ms[0], rs[0]
		}
		return c, nil, nil
	}
	return nil, nil, nil
}

// ruleResultIndex (R13h) and rulePosReducer (R9b/POS) for queryHandler.
func ruleResultIndex(r *Run) {
	const rule = "R13h"
	qh := r.Anchor(rule, "pebbles.(*Gateway).queryHandler")
	if qh == nil {
		return
	}
	call, mapF, redF := r.amrSite(qh)
	if call == nil || mapF == nil || redF == nil {
		r.Bad(rule, fnName(qh), "fan-out", r.P.pos(qh.Pos()), "queryHandler no longer fans operations out through one AsyncMapReduce call with literal map/reduce functions (shape not recognised)")
		return
	}
	name := fnName(mapF)
	if len(mapF.Params) != 1 {
		r.Bad(rule, name, "map parameter", r.P.pos(mapF.Pos()), "the per-operation closure does not take exactly the operation index")
		return
	}
	idxParam := mapF.Params[0]
	// payload must be lo.Range(len(rs.Requests)) and the accumulator make(Results, len(rs.Requests))
	okPayload := false
	if pc, ok := call.Call.Args[0].(*ssa.Call); ok && strings.HasPrefix(calleeName(&pc.Call), "github.com/samber/lo.Range") {
		if lc, ok := pc.Call.Args[0].(*ssa.Call); ok {
			if b, ok := lc.Call.Value.(*ssa.Builtin); ok && b.Name() == "len" {
				if ms, ok := call.Call.Args[1].(*ssa.MakeSlice); ok {
					if lc2, ok := ms.Len.(*ssa.Call); ok {
						if b2, ok := lc2.Call.Value.(*ssa.Builtin); ok && b2.Name() == "len" && sameValue(lc.Call.Args[0], lc2.Call.Args[0]) {
							okPayload = true
						}
					}
				}
			}
		}
	}
	r.Check(okPayload, rule, fnName(qh), "payload and accumulator", r.P.pos(call.Pos()),
		"payload is lo.Range(len(rs.Requests)) and the accumulator is made with the same length: one slot per operation",
		"the batch fan-out is no longer `lo.Range(len(rs.Requests))` over an accumulator of the same length: the number/positions of results can differ from the number of operations")

	indexField := func(f *ssa.Function, v ssa.Value, idx ssa.Value) *ssa.Store {
		// a store `v.index = idx`
		for _, ins := range allInstrs(f) {
			st, ok := ins.(*ssa.Store)
			if !ok {
				continue
			}
			fa, ok := st.Addr.(*ssa.FieldAddr)
			if !ok || fa.X != v {
				continue
			}
			if fld := fieldOf(fa); fld != nil && fld.Name() == "index" && unwrap(st.Val) == idx {
				return st
			}
		}
		return nil
	}
	fieldStore := func(f *ssa.Function, v ssa.Value, field string) *ssa.Store {
		for _, ins := range allInstrs(f) {
			st, ok := ins.(*ssa.Store)
			if !ok {
				continue
			}
			fa, ok := st.Addr.(*ssa.FieldAddr)
			if ok && fa.X == v && fieldOf(fa) != nil && fieldOf(fa).Name() == field {
				return st
			}
		}
		return nil
	}
	g := &gateInfo{r: r}
	g.compute(r.P.CG.Reachable([]*ssa.Function{qh}, nil))
	n := 0
	// checkReturns looks at every return of f — the per-operation closure, or a function of the
	// module the closure (transitively) returns the result of, handing it the operation index as
	// parameter idx: `return g.executeOperation(index, rs.Requests[index]), nil`. resAt/errAt are
	// the positions of the Result and of the error among f's results (errAt < 0: none).
	var checkReturns func(f *ssa.Function, idx ssa.Value, resAt, errAt int, gated bool, depth int)
	checkReturns = func(f *ssa.Function, idx ssa.Value, resAt, errAt int, gated bool, depth int) {
		fname := fnName(f)
		for _, ret := range returnsOf(f) {
			vals := retVals(ret)
			if resAt >= len(vals) || errAt >= len(vals) {
				continue
			}
			site := r.P.pos(retPos(ret))
			errFromCallee := map[*ssa.Call]bool{}
			if errAt >= 0 && !isNilConst(unwrap(vals[errAt])) {
				// the error of the very helper whose Result is returned is judged inside that helper
				if ex, ok := unwrap(vals[errAt]).(*ssa.Extract); ok {
					if c, ok := ex.Tuple.(*ssa.Call); ok {
						if rx, ok := unwrap(vals[resAt]).(*ssa.Extract); ok && rx.Tuple == ssa.Value(c) {
							errFromCallee[c] = true
						}
					}
				}
				if len(errFromCallee) == 0 {
					n++
					r.Bad(rule, fname, "returned error", site, "the per-operation closure returns an error: AsyncMapReduce then records no result for this slot and the response array has a null hole; failures must be returned as a Result with Errors")
				}
			}
			var cands []ssa.Value
			if p, ok := vals[resAt].(*ssa.Phi); ok {
				cands = append(cands, p.Edges...)
			} else {
				cands = []ssa.Value{vals[resAt]}
			}
			for _, v := range cands {
				v = unwrap(v)
				if helperSetsIndex(r, v, idx) {
					n++
					r.OK(rule, fname, "Result.index", site, "the Result is built by a helper that stores the operation index it is given into index on every return")
					continue
				}
				// the result of a module function that is handed the index: its returns
				var hc *ssa.Call
				hres, herr := 0, -1
				switch x := v.(type) {
				case *ssa.Call:
					hc = x
				case *ssa.Extract:
					if c, ok := x.Tuple.(*ssa.Call); ok {
						hc, hres = c, x.Index
					}
				}
				if hc != nil && depth < 3 {
					if sc := hc.Call.StaticCallee(); sc != nil {
						if d := r.P.declared(sc); inModule(d) && d.Blocks != nil && indexField(f, v, idx) == nil {
							pi := -1
							for i, a := range hc.Call.Args {
								if unwrap(a) == idx {
									pi = i
								}
							}
							res := d.Signature.Results()
							for i := 0; i < res.Len(); i++ {
								if isErrorish(res.At(i).Type()) && i != hres {
									herr = i
								}
							}
							if pi >= 0 && pi < len(d.Params) && (herr < 0 || errFromCallee[hc]) {
								if !errFromCallee[hc] {
									herr = -1
								}
								checkReturns(d, d.Params[pi], hres, herr, gated || g.validated[f][hc.Block()], depth+1)
								continue
							}
						}
					}
				}
				n++
				st := indexField(f, v, idx)
				if st == nil || !instrDominates(st, ret) {
					r.Bad(rule, fname, "Result.index", site, "a Result is returned whose index field is not set from the closure's operation index on this path: the reducer would place it in slot 0 (overwriting another operation's result) and leave its own slot null")
					continue
				}
				r.OK(rule, fname, "Result.index", site, "index is stored from the operation index before the return")
				// failure results: returned before the gate ⇒ Data nil, Errors set
				if !gated && !g.validated[f][ret.Block()] {
					d := fieldStore(f, v, "Data")
					e := fieldStore(f, v, "Errors")
					okData := d == nil || isNilConst(unwrap(d.Val))
					okErr := e != nil && !isNilConst(unwrap(e.Val))
					if _, isAlloc := v.(*ssa.Alloc); isAlloc {
						r.Check(okData && okErr, rule, fname, "validation-failure Result", site,
							"Data is nil and Errors is set on a result returned before validation succeeded",
							"a result returned on a validation-failure path carries data or no errors (C07: invalid ⇒ data null + errors)")
					}
				}
			}
		}
	}
	if mapF.Signature.Results().Len() == 2 {
		checkReturns(mapF, idxParam, 0, 1, false, 0)
	}
	r.AtLeast(rule, "returns of the per-operation closure", n, 4)

	// reducer: acc[value.index] = value; return acc
	rn := fnName(redF)
	if len(redF.Params) != 2 {
		r.Bad("R9b.pos", rn, "reducer signature", r.P.pos(redF.Pos()), "reducer does not take (acc, value)")
		return
	}
	acc, val := redF.Params[0], redF.Params[1]
	placed := false
	other := false
	for _, ins := range allInstrs(redF) {
		switch x := ins.(type) {
		case *ssa.Store:
			ia, ok := x.Addr.(*ssa.IndexAddr)
			if ok && ia.X == ssa.Value(acc) && unwrap(x.Val) == ssa.Value(val) {
				if ld, ok := ia.Index.(*ssa.UnOp); ok && ld.Op == token.MUL {
					if fa, ok := ld.X.(*ssa.FieldAddr); ok && fa.X == ssa.Value(val) && fieldOf(fa) != nil && fieldOf(fa).Name() == "index" {
						placed = true
						continue
					}
				}
			}
			other = true
		case *ssa.Call:
			if b, ok := x.Call.Value.(*ssa.Builtin); ok && b.Name() == "append" {
				other = true
			}
		case *ssa.Slice:
			other = true
		}
	}
	retOK := true
	for _, ret := range returnsOf(redF) {
		if unwrap(retVals(ret)[0]) != ssa.Value(acc) {
			retOK = false
		}
	}
	r.Check(placed && !other && retOK, "R9b.pos", rn, "acc[value.index] = value", r.P.pos(redF.Pos()),
		"the reducer stores each result at the index it carries and returns the same accumulator: placement does not depend on arrival order",
		"the batch reducer does not place results purely by their carried index (append/slicing/other stores): result positions would depend on the order in which operations finish")
}

// ruleClosureIsolation (R3c): the per-operation closure of queryHandler writes only memory it
// allocated itself. The closure's code is the closure plus the functions of its package it
// calls (its body may live in a method): there a write through a parameter is judged by what
// the callers inside that code pass in.
func ruleClosureIsolation(r *Run) {
	const rule = "R3c"
	qh := r.Anchor(rule, "pebbles.(*Gateway).queryHandler")
	if qh == nil {
		return
	}
	_, mapF, _ := r.amrSite(qh)
	if mapF == nil {
		return
	}
	n := 0
	pkg := topFn(mapF).Pkg
	region := r.P.CG.Reachable([]*ssa.Function{mapF}, func(e *Edge) bool { return e.Kind != "static" || topFn(e.Callee).Pkg != pkg })
	var fns []*ssa.Function
	for f := range region {
		fns = append(fns, f)
	}
	sort.Slice(fns, func(i, j int) bool { return fnName(fns[i]) < fnName(fns[j]) })
	rootOf := func(addr ssa.Value) ssa.Value {
		for {
			switch x := addr.(type) {
			case *ssa.FieldAddr:
				addr = x.X
			case *ssa.IndexAddr:
				addr = x.X
			default:
				return addr
			}
		}
	}
	// own: the object root was made by this invocation of the closure's code
	var own func(root ssa.Value, depth int) (bool, string)
	own = func(root ssa.Value, depth int) (bool, string) {
		switch rt := root.(type) {
		case *ssa.Alloc, *ssa.MakeMap, *ssa.MakeSlice:
			return true, "the written object was allocated by this invocation of the closure"
		case *ssa.Call:
			// a value returned by a call (e.g. the introspection Result): fresh per invocation
			if _, isPtr := rt.Type().Underlying().(*types.Pointer); isPtr {
				return true, "writes a field of an object returned to this invocation by " + calleeDesc(&rt.Call)
			}
			return false, ""
		case *ssa.Parameter:
			f := rt.Parent()
			if f == mapF || depth > 3 {
				return false, ""
			}
			k := -1
			for i, p := range f.Params {
				if p == rt {
					k = i
				}
			}
			sites := 0
			for _, e := range r.P.CG.In[f] {
				if e.Kind == "param" || !region[e.Caller] {
					continue
				}
				if e.Kind != "static" || k < 0 || k >= len(e.Site.Common().Args) {
					return false, ""
				}
				a := e.Site.Common().Args[k]
				if origin(e.Caller) == origin(f) && rootOf(a) == root {
					continue // the function calls itself and hands the same object on: decided by the other callers
				}
				sites++
				if ld, ok := a.(*ssa.UnOp); ok && ld.Op == token.MUL {
					return false, "" // loaded from memory: whose it is cannot be told here
				}
				if ok, _ := own(rootOf(a), depth+1); !ok {
					return false, ""
				}
			}
			if sites == 0 {
				return false, ""
			}
			return true, "the written object is handed in by the closure's own code, which allocated it"
		}
		return false, ""
	}
	for _, fn := range fns {
		name := fnName(fn)
		for _, ins := range allInstrs(fn) {
			var addr ssa.Value
			switch x := ins.(type) {
			case *ssa.Store:
				addr = x.Addr
			case *ssa.MapUpdate:
				addr = x.Map
			default:
				continue
			}
			n++
			root := rootOf(addr)
			site := r.P.pos(ins.Pos())
			if ok, why := own(root, 0); ok {
				what := "write to own allocation"
				if _, isCall := root.(*ssa.Call); isCall {
					what = "write to call result"
				}
				r.OK(rule, name, what, site, why)
				continue
			}
			if _, isCall := root.(*ssa.Call); isCall {
				r.Bad(rule, name, "write", site, "the per-operation closure writes shared state")
				continue
			}
			r.Bad(rule, name, "write to captured/shared memory", site, fmt.Sprintf("the per-operation closure writes memory it did not allocate (%s): operations of one batch run concurrently and would interfere", root.String()))
		}
	}
	r.AtLeast(rule, "writes in the per-operation closure", n, 5)
}

// ruleSemaphorePairing: inside every function of the scope, a channel that is both sent to
// and received from by that function (acquire/release) is released on every path after it
// was acquired.
func ruleSemaphorePairing(sc scope) ruleFn {
	return func(r *Run) {
		const rule = "R5s"
		set := r.scopeFuncs(panicScope{label: sc.label, roots: sc.roots})
		n := 0
		for fn := range set {
			var sends []*ssa.Send
			var recvs []*ssa.UnOp
			for _, ins := range allInstrs(fn) {
				switch x := ins.(type) {
				case *ssa.Send:
					sends = append(sends, x)
				case *ssa.UnOp:
					if x.Op == token.ARROW {
						recvs = append(recvs, x)
					}
				}
			}
			chanRoot := func(v ssa.Value) ssa.Value {
				v = unwrap(v)
				if ld, ok := v.(*ssa.UnOp); ok && ld.Op == token.MUL {
					return ld.X
				}
				return v
			}
			for _, s := range sends {
				for _, rc := range recvs {
					if chanRoot(s.Chan) != chanRoot(rc.X) {
						continue
					}
					// acquire = whichever comes first; require the other on every path to exit
					n++
					first, second := ssa.Instruction(s), ssa.Instruction(rc)
					if instrDominates(rc, s) {
						first, second = rc, s
					}
					root := chanRoot(s.Chan)
					ok, bad := mustPass(first.Block(), instrIdx(first)+1, func(i ssa.Instruction) bool {
						switch y := i.(type) {
						case *ssa.Send:
							return i != first && chanRoot(y.Chan) == root
						case *ssa.UnOp:
							return i != first && y.Op == token.ARROW && chanRoot(y.X) == root
						case *ssa.Defer:
							// deferred release through a literal that receives/sends on the channel
							if lit, isLit := y.Call.Value.(*ssa.MakeClosure); isLit {
								if lf, ok := lit.Fn.(*ssa.Function); ok {
									for _, li := range allInstrs(lf) {
										switch li.(type) {
										case *ssa.Send, *ssa.UnOp:
											return true
										}
									}
								}
							}
						}
						return false
					})
					_ = second
					if ok {
						r.OK(rule, fnName(fn), "semaphore pairing", r.P.pos(first.Pos()), "the slot taken here is given back on every path to return")
					} else {
						r.Bad(rule, fnName(fn), "semaphore pairing", r.P.pos(first.Pos()), "a channel is used as a semaphore (send and receive in the same function) but a path from the acquire to the return at "+r.P.pos(bad.Pos())+" never releases it: later acquirers block forever")
					}
				}
			}
		}
		_ = n
	}
}

// ruleCancelOwnership (R8d): a context.CancelFunc is called/deferred by the function that
// created it and goes nowhere else. Handing it to other code lets one unit of work cancel
// the context of others that share it.
func ruleCancelOwnership(r *Run) {
	const rule = "R8d"
	n := 0
	for _, fn := range r.P.Funcs {
		for _, ins := range allInstrs(fn) {
			c, ok := ins.(*ssa.Call)
			if !ok {
				continue
			}
			switch calleeName(&c.Call) {
			case "context.WithCancel", "context.WithTimeout", "context.WithDeadline", "context.WithCancelCause":
			default:
				continue
			}
			for _, ref := range *c.Referrers() {
				ex, ok := ref.(*ssa.Extract)
				if !ok || ex.Index != 1 {
					continue
				}
				n++
				var bad ssa.Instruction
				var check func(v ssa.Value)
				var checkCell func(cell ssa.Value, depth int)
				// a cell (local variable, or the same variable seen from a literal of this
				// function) that holds the cancel function: loads are again only called or
				// deferred. A function literal that captures the cell is still this function's
				// own code when the literal goes nowhere — it is only deferred or called on the
				// spot (the teardown `defer func() { …; cancel() }()`), never started as a
				// goroutine, stored or passed on.
				checkCell = func(cell ssa.Value, depth int) {
					if depth > 4 {
						bad = c
						return
					}
					for _, r2 := range *cell.Referrers() {
						switch y := r2.(type) {
						case *ssa.UnOp:
							check(y)
						case *ssa.Store:
							if y.Addr != cell {
								bad = r2 // the cell's address is stored somewhere
							}
						case *ssa.DebugRef:
						case *ssa.MakeClosure:
							lit, ok := y.Fn.(*ssa.Function)
							if !ok {
								bad = r2
								continue
							}
							for _, u := range *y.Referrers() {
								switch z := u.(type) {
								case *ssa.Defer:
									if z.Call.Value != ssa.Value(y) {
										bad = u
									}
								case *ssa.Call:
									if z.Call.Value != ssa.Value(y) {
										bad = u
									}
								case *ssa.DebugRef:
								default:
									bad = u // go statement, store, argument, return
								}
							}
							for k, b := range y.Bindings {
								if b == cell && k < len(lit.FreeVars) {
									checkCell(lit.FreeVars[k], depth+1)
								}
							}
						default:
							bad = r2
						}
					}
				}
				check = func(v ssa.Value) {
					for _, u := range *v.Referrers() {
						switch x := u.(type) {
						case *ssa.Defer:
							if x.Call.Value != v {
								bad = u
							}
						case *ssa.Call:
							if x.Call.Value != v {
								bad = u
							}
						case *ssa.Store:
							al, isAl := x.Addr.(*ssa.Alloc)
							if !isAl || x.Val != v {
								bad = u
								continue
							}
							// local cell: every load must again be only called/deferred here
							checkCell(al, 0)
						case *ssa.DebugRef:
						default:
							bad = u
						}
					}
				}
				check(ex)
				site := r.P.pos(c.Pos())
				if bad == nil {
					r.OK(rule, fnName(fn), "cancel func of "+calleeName(&c.Call), site, "only called/deferred by the function that created the context (or by a literal of it that is itself only deferred/called there)")
				} else {
					r.Bad(rule, fnName(fn), "cancel func of "+calleeName(&c.Call), r.P.pos(bad.Pos()), "the cancel function of a context leaves the function that created it (stored, captured or passed on): whoever receives it can cancel every unit of work that shares the context — e.g. one failing operation of a batch aborting the in-flight sub-requests of its siblings")
				}
			}
		}
	}
	r.AtLeast(rule, "cancellable contexts", n, 1)
}

// ruleWholeBodyDecode (R13r): request bodies are decoded as one complete JSON document. A
// streaming Decoder.Decode stops after the first value and ignores trailing bytes, so bodies
// that are not valid JSON would be accepted unless the code checks for what follows.
func ruleWholeBodyDecode(r *Run) {
	const rule = "R13r"
	root := r.Anchor(rule, "requests.Parse")
	if root == nil {
		return
	}
	n := 0
	for fn := range r.P.CG.Reachable([]*ssa.Function{root}, nil) {
		hasMore := false
		for _, ins := range allInstrs(fn) {
			if ci, ok := ins.(ssa.CallInstruction); ok {
				switch calleeName(ci.Common()) {
				case "(*encoding/json.Decoder).More", "(*encoding/json.Decoder).Token", "(*encoding/json.Decoder).InputOffset", "(*encoding/json.Decoder).Buffered":
					hasMore = true
				}
			}
		}
		for _, ins := range allInstrs(fn) {
			ci, ok := ins.(ssa.CallInstruction)
			if !ok {
				continue
			}
			switch calleeName(ci.Common()) {
			case "encoding/json.Unmarshal":
				n++
				r.OK(rule, fnName(fn), "json.Unmarshal of the request", r.P.pos(ins.Pos()), "Unmarshal rejects input that is not exactly one JSON value")
			case "(*encoding/json.Decoder).Decode":
				n++
				r.Check(hasMore, rule, fnName(fn), "Decoder.Decode of the request", r.P.pos(ins.Pos()),
					"the decoder is asked about remaining input afterwards", "the request is decoded with a streaming Decoder.Decode and nothing looks at what follows the first JSON value: a body such as `{...} garbage` or `[...]]` is not valid JSON but is executed and answered 200 instead of 422")
			}
		}
	}
	r.AtLeast(rule, "JSON decodes of the request body", n, 3)
}

// helperSetsIndex: v is the result of a call to a module function that, on every return,
// yields a freshly built Result whose index field is stored from the parameter that receives
// the closure's operation index at this call.
func helperSetsIndex(r *Run, v ssa.Value, idx ssa.Value) bool {
	c, ok := v.(*ssa.Call)
	if !ok {
		return false
	}
	sc := c.Call.StaticCallee()
	if sc == nil {
		return false
	}
	f := r.P.declared(sc)
	if !inModule(f) || f.Blocks == nil {
		return false
	}
	pi := -1
	for i, a := range c.Call.Args {
		if unwrap(a) == idx {
			pi = i
		}
	}
	if pi < 0 || pi >= len(f.Params) {
		return false
	}
	for _, ret := range returnsOf(f) {
		rv := unwrap(retVals(ret)[0])
		al, ok := rv.(*ssa.Alloc)
		if !ok {
			return false
		}
		set := false
		for _, ins := range allInstrs(f) {
			st, ok := ins.(*ssa.Store)
			if !ok {
				continue
			}
			fa, ok := st.Addr.(*ssa.FieldAddr)
			if ok && fa.X == ssa.Value(al) && fieldOf(fa) != nil && fieldOf(fa).Name() == "index" && unwrap(st.Val) == ssa.Value(f.Params[pi]) && instrDominates(st, ret) {
				set = true
			}
		}
		if !set {
			return false
		}
	}
	return true
}

// fanoutOwnerWrites: confirmed writes to the owning object from inside a fan-out.
var fanoutOwnerWrites = map[string]tabEntry{
	"queryer.(*MultiOpQueryer).sendRequest/store MultiOpQueryer.client": {1,
		"lazy default `if q.client == nil { q.client = &http.Client{} }`: two chunks of one Query can both see nil and both store an equivalent empty client — a benign data race (every stored value behaves the same and the default factory always sets a client), recorded rather than silenced"},
}

// ownerFieldOfLoad: v is the value of a field (`x.f` loaded), possibly re-typed; the field's address.
func ownerFieldOfLoad(v ssa.Value) *ssa.FieldAddr {
	ld, ok := unwrap(v).(*ssa.UnOp)
	if !ok || ld.Op != token.MUL {
		return nil
	}
	fa, _ := ld.X.(*ssa.FieldAddr)
	return fa
}

// ruleFanoutOwner (R3i): the workers of a fan-out do not write the object whose method started
// the fan-out. For every AsyncMapReduce call inside a method, the functions reachable from its
// map function neither store to a field of the method's receiver type nor hand the address of
// such a field to sync/atomic: the workers of one fan-out run concurrently and finish in any
// order, so a flag or counter on the shared object makes what one worker does depend on how
// far its siblings have got.
func ruleFanoutOwner(r *Run) {
	const rule = "R3i"
	n := 0
	for _, fn := range r.P.Funcs {
		call, mapF, _ := r.amrSite(fn)
		if call == nil || mapF == nil || topFn(fn).Signature.Recv() == nil {
			continue
		}
		owner := namedOf(topFn(fn).Signature.Recv().Type())
		if owner == "" || owner == modPath+".Gateway" {
			continue // Gateway state has its own rule (R3b)
		}
		n++
		region := r.P.CG.Reachable([]*ssa.Function{mapF}, nil)
		var fs []*ssa.Function
		for g := range region {
			fs = append(fs, g)
		}
		sort.Slice(fs, func(i, j int) bool { return fnName(fs[i]) < fnName(fs[j]) })
		bad := 0
		for _, g := range fs {
			for _, ins := range allInstrs(g) {
				var fa *ssa.FieldAddr
				what := ""
				switch x := ins.(type) {
				case *ssa.Store:
					if f, ok := x.Addr.(*ssa.FieldAddr); ok {
						fa, what = f, "store"
					}
				case *ssa.MapUpdate:
					// a map held in a field of the owner: concurrent map writes are fatal, and
					// what a sibling reads from it depends on timing
					if f := ownerFieldOfLoad(x.Map); f != nil {
						fa, what = f, "map update"
					}
				case ssa.CallInstruction:
					c := x.Common()
					if b, isB := c.Value.(*ssa.Builtin); isB && (b.Name() == "delete" || b.Name() == "clear") && len(c.Args) > 0 {
						if f := ownerFieldOfLoad(c.Args[0]); f != nil {
							fa, what = f, "map "+b.Name()
						}
					}
					if strings.HasPrefix(calleeName(c), "sync/atomic.") && len(c.Args) > 0 {
						if f, ok := c.Args[0].(*ssa.FieldAddr); ok {
							fa, what = f, calleeName(c)
						}
					}
					if strings.HasPrefix(calleeName(c), "(*sync/atomic.") && len(c.Args) > 0 {
						if f, ok := c.Args[0].(*ssa.FieldAddr); ok {
							fa, what = f, calleeName(c)
						}
					}
				}
				if fa == nil || namedOf(fa.X.Type()) != owner || fieldOf(fa) == nil {
					continue
				}
				if al, isAl := fa.X.(*ssa.Alloc); isAl && al.Parent() == g {
					continue // a fresh object of the owner's type
				}
				bad++
				construct := what + " " + shortStruct(owner) + "." + fieldOf(fa).Name()
				if reason, ok := useTable(r, fanoutOwnerWrites, fnName(g)+"/"+construct); ok {
					r.Tabled(rule, fnName(g), construct, r.P.pos(ins.Pos()), "fanoutOwnerWrites", reason)
					continue
				}
				r.Bad(rule, fnName(g), construct, r.P.pos(ins.Pos()), "a worker of the fan-out started by "+fnName(fn)+" writes the object that owns the fan-out ("+shortStruct(owner)+"): its siblings run concurrently and read that object, so what they do — which errors are reported, what is skipped — depends on which of them got there first")
			}
		}
		if bad == 0 {
			r.OK(rule, fnName(fn), "workers leave "+shortStruct(owner)+" alone", r.P.pos(call.Pos()), fmt.Sprintf("none of the %d functions reachable from the map function stores to a field of the owner, updates a map held in one or passes one to sync/atomic", len(fs)))
		}
	}
	r.AtLeast(rule, "fan-outs started by methods", n, 3)
}
