package main

// Executor / queryer multiplicity rules (C06, C11, C12, C13):
//  R12a  the send chain and the per-group Query call are not inside retry/per-item loops;
//        one Execute per depth; requests of a level are grouped by service URL
//  R13k  the de-duplication key is built from the entity id AND the sub-query hash, only when
//        there are no other variables; every place gets its own copy of the shared answer

import (
	"fmt"
	"go/constant"
	"go/token"
	"go/types"
	"sort"
	"strings"

	"golang.org/x/tools/go/ssa"
)

// innermostLoop returns the smallest natural loop containing b (nil if none).
func innermostLoop(b *ssa.BasicBlock) map[*ssa.BasicBlock]bool {
	var best map[*ssa.BasicBlock]bool
	for _, h := range b.Parent().Blocks {
		l := naturalLoop(h)
		if len(l) > 0 && l[b] {
			if best == nil || len(l) < len(best) {
				best = l
			}
		}
	}
	return best
}

func inAnyLoop(b *ssa.BasicBlock) bool { return innermostLoop(b) != nil }

// loopsAllowed: calls of a send-chain function that legitimately sit in a loop, keyed by the
// calling package and the callee (not by the calling function: splitting the caller is benign).
// Each entry covers the confirmed number of call sites; a further looped call of the same
// callee in the package is reported.
var loopsAllowed = map[string]tabEntry{
	"queryer | queryer.(*MultiOpQueryer).fetchFile": {1, "one multipart request per input that carries files: each iteration sends a different request exactly once"},
	"executor | executor.(*DepthExecutor).Execute":  {1, "one pass per plan depth (checked separately: the depth variable strictly increases)"},
}

var loopsAllowedUsed = map[string]int{}

// fanOutAllowed: the places where a function of the downstream send chain is handed to the
// fan-out helper (which runs it once per element), per package (a confirmed fan-out moved
// into a helper of the same package stays the same fan-out).
var fanOutAllowed = map[string]tabEntry{
	"queryer":  {1, "MultiOpQueryer.Query: one call per chunk of MaxBatchSize requests: the number of calls is fixed by the configured batch size (C11), each chunk is sent once"},
	"executor": {1, "DepthExecutor.Execute: one batch per service group of the depth: the groups are the services named by the plan's steps at that depth"},
}

var fanOutUsed = map[string]int{}

// handsToFanOut: the hoarg edge e hands its function to a helper listed in hofAllowed.
func (r *Run) handsToFanOut(e *Edge) bool {
	for _, e2 := range r.P.CG.Out[e.Caller] {
		if e2.Site == e.Site && (e2.Kind == "static" || e2.Kind == "invoke" || e2.Kind == "dynamic") {
			if _, ok := hofAllowed[fnName(e2.Callee)]; ok {
				return true
			}
		}
	}
	return false
}

// sendChain computes the functions on call paths from root to a call of the named sink:
// members of the region reachable from root that contain the sink call or call a member.
func (r *Run) sendChain(root *ssa.Function, sink string) map[*ssa.Function]bool {
	region := r.P.CG.Reachable([]*ssa.Function{root}, func(e *Edge) bool {
		// what the fan-out helper runs is reached through the call sites that hand it in
		_, helper := hofAllowed[fnName(e.Caller)]
		return helper
	})
	chain := map[*ssa.Function]bool{}
	for fn := range region {
		for _, e := range r.P.CG.Ext[fn] {
			if e.Name == sink {
				chain[fn] = true
			}
		}
	}
	for changed := true; changed; {
		changed = false
		for fn := range region {
			if chain[fn] {
				continue
			}
			if _, helper := hofAllowed[fnName(fn)]; helper {
				// the fan-out helper is transparent: the functions it is given are charged to
				// the call sites that hand them in (hoarg edges); how often it runs them is R1
				continue
			}
			for _, e := range r.P.CG.Out[fn] {
				if e.Kind != "param" && chain[e.Callee] {
					chain[fn] = true
					changed = true
					break
				}
			}
		}
	}
	return chain
}

func ruleMultiplicity(r *Run) {
	const rule = "R12a"
	// credits are per run of the rule
	for _, used := range []map[string]int{loopsAllowedUsed, fanOutUsed} {
		for k := range used {
			if strings.HasPrefix(k, r.Property) {
				delete(used, k)
			}
		}
	}
	// the send chain: callee → must not be called from inside a loop
	n := 0
	for _, rs := range [][2]string{
		{"queryer.(*MultiOpQueryer).Query", "(*net/http.Client).Do"},
		{"executor.(ParallelExecutor).Execute", "github.com/buildbuildio/pebbles/queryer.Queryer.Query"},
	} {
		root := r.Anchor(rule, rs[0])
		if root == nil {
			continue
		}
		chain := r.sendChain(root, rs[1])
		r.Check(len(chain) >= 3 && chain[root], rule, rs[0], "send chain to "+rs[1], r.P.pos(root.Pos()),
			fmt.Sprintf("%d functions lie on the call paths from here to the network call", len(chain)),
			"no call path from "+rs[0]+" to "+rs[1]+" was found: the send chain cannot be checked")
		// R12a.once: along any one path through a chain function the next hop is entered at
		// most once (a second, sequential send is a retry even without a loop)
		var all []*ssa.Function
		for fn := range chain {
			all = append(all, fn)
		}
		sort.Slice(all, func(i, j int) bool { return fnName(all[i]) < fnName(all[j]) })
		for _, fn := range all {
			// call sites of the next hop, per callee: two different next hops on one path serve
			// different parts of the batch (files first, then the rest); the same one twice is a retry
			hops := map[string]map[ssa.Instruction]bool{}
			mark := func(callee string, site ssa.Instruction) {
				if hops[callee] == nil {
					hops[callee] = map[ssa.Instruction]bool{}
				}
				hops[callee][site] = true
			}
			for _, e := range r.P.CG.Out[fn] {
				if e.Kind != "param" && chain[e.Callee] && e.Callee != fn {
					mark(fnName(e.Callee), e.Site)
				}
			}
			for _, e := range r.P.CG.Ext[fn] {
				if e.Name == rs[1] {
					mark(e.Name, e.Site)
				}
			}
			if len(hops) == 0 || len(fn.Blocks) == 0 {
				continue
			}
			// a chain function that can reach itself again (directly or through other chain
			// functions) sends once per level of the recursion
			if cyc := chainCycle(r, fn, chain); cyc != "" {
				r.Bad("R12a.once", fnName(fn), "send-chain function re-enters itself", r.P.pos(fn.Pos()), "a function of the downstream send chain calls itself again ("+cyc+"): each level of the recursion sends the request once more — a retry without a loop; a mutation the service already executed is delivered again")
			}
			// no hop is entered on the failure side of another hop: whatever its name, a send
			// that is made because the previous one failed is a second attempt
			for _, hop := range hops {
				for site := range hop {
					errv := errorOfCall(site)
					if errv == nil {
						continue
					}
					for _, t := range failureTests(errv) {
						after := blockReach(t.fail)
						after[t.fail] = true
						for _, other := range hops {
							for s2 := range other {
								if s2 != site && after[s2.Block()] {
									r.Bad("R12a.once", fnName(fn), "send after a failed send", r.P.pos(s2.Pos()), "this call into the downstream send chain can run after "+calleeDesc(site.(ssa.CallInstruction).Common())+" has failed (it lies on the failure side of its error test): a fallback or second chance re-sends a batch the service may already have executed — mutations are applied twice and the first failure is hidden")
								}
							}
						}
					}
				}
			}
			max, cyclic, nSites := 0, false, 0
			for _, hop := range hops {
				m, c := maxHopsOnPath(fn, hop)
				nSites += len(hop)
				if m > max {
					max = m
				}
				cyclic = cyclic || c
			}
			switch {
			case cyclic && max <= 1:
				// functions with loops are judged by the loop rule above/below
				r.OK("R12a.once", fnName(fn), "next hop inside a loop", r.P.pos(fn.Pos()), "a call site of the next hop lies on a cycle of this function: judged by the loop rule R12a, not by path counting")
			case max <= 1:
				r.OK("R12a.once", fnName(fn), "next hop entered at most once per path", r.P.pos(fn.Pos()), fmt.Sprintf("%d call site(s) of the next hop, never the same callee twice on one path", nSites))
			default:
				r.Bad("R12a.once", fnName(fn), "next hop entered at most once per path", r.P.pos(fn.Pos()), fmt.Sprintf("a path through %s enters the downstream send chain %d times (a second attempt after a failed first one): a request the service already executed — a mutation — can be delivered twice, and a failed call is hidden", fnName(fn), max))
			}
		}
		var members []*ssa.Function
		for fn := range chain {
			if fn != root {
				members = append(members, fn)
			}
		}
		sort.Slice(members, func(i, j int) bool { return fnName(members[i]) < fnName(members[j]) })
		for _, callee := range members {
			cn := fnName(callee)
			for _, e := range r.P.CG.In[callee] {
				if e.Kind == "param" || !chain[e.Caller] {
					continue
				}
				n++
				site := r.P.pos(e.Site.Pos())
				pkg := shortPkg(topFn(e.Caller).Pkg.Pkg.Path())
				key := pkg + " | " + cn
				// a function value handed to somebody else: how often it runs is decided there
				if e.Kind == "extarg" {
					lib := calleeDesc(e.Site.Common())
					r.Bad(rule, fnName(e.Caller), "hands "+cn+" to "+lib, site, "a step of the downstream send chain is handed to a library function ("+lib+") that decides how often, in which order and on which goroutine it runs: the sends are no longer one after the other and no longer stop at the first failure (every upload goes out although an earlier one failed), or are repeated")
					continue
				}
				if e.Kind == "hoarg" {
					if once, why := r.hofCallsOnce(e); !once {
						r.Bad(rule, fnName(e.Caller), "calls "+cn, site, "a step of the downstream send chain is handed to a helper that can run it more than once ("+why+"): the same request is sent again after a failure — a mutation the service already executed is delivered twice")
						continue
					}
					// handed to the fan-out helper: it runs once per ELEMENT, so the number of
					// sends is the number of elements — the confirmed fan-out points split the
					// work by plan shape (service groups of a depth) or by the configured batch
					// size; a further one multiplies the round trips by whatever it ranges over
					if r.handsToFanOut(e) {
						fk := shortPkg(topFn(e.Caller).Pkg.Pkg.Path())
						if ent, ok := fanOutAllowed[fk]; ok && fanOutUsed[r.Property+fk] < ent.N {
							fanOutUsed[r.Property+fk]++
							r.Tabled(rule, fnName(e.Caller), "fans out "+cn, site, "fanOutAllowed", ent.Reason)
						} else {
							r.Bad(rule, fnName(e.Caller), "fans out "+cn, site, "a step of the downstream send chain is handed to the fan-out helper at a new place: it is run once per element of whatever the helper is given, so one batch for a service at a plan level becomes as many calls as there are elements (pieces of a long list, attempts, …) — the number of round trips follows the size of the result, not the shape of the plan")
						}
						continue
					}
				}
				if !inAnyLoop(e.Site.Block()) {
					r.OK(rule, fnName(e.Caller), "calls "+cn, site, "call site is not inside any loop of its function: executed at most once per invocation")
				} else if ent, ok := loopsAllowed[key]; ok && loopsAllowedUsed[r.Property+key] < ent.N {
					loopsAllowedUsed[r.Property+key]++
					r.Tabled(rule, fnName(e.Caller), "calls "+cn, site, "loopsAllowed", ent.Reason)
				} else if below := loopedBelow(r, callee, chain, rs[1], pkg); len(below) > 0 && creditsLeft(r, below) {
					// the body of a confirmed loop was moved into this callee: the loop is
					// charged to the confirmed callees that every path to the network passes
					for _, k := range below {
						loopsAllowedUsed[r.Property+k]++
					}
					r.Tabled(rule, fnName(e.Caller), "calls "+cn, site, "loopsAllowed", "every path from "+cn+" to the network goes through "+strings.Join(below, ", ")+": "+loopsAllowed[below[0]].Reason)
				} else {
					r.Bad(rule, fnName(e.Caller), "calls "+cn, site, "a step of the downstream send chain is called from inside a loop: the same request can be sent more than once (retry) or once per list entry instead of once per batch")
				}
			}
		}
	}
	r.executorEntries()
	// direct sinks
	for _, fn := range r.P.Funcs {
		for _, e := range r.P.CG.Ext[fn] {
			switch e.Name {
			case "(*net/http.Client).Do", "github.com/buildbuildio/pebbles/queryer.Queryer.Query", "(github.com/gobwas/ws.Dialer).Dial":
				if fnName(fn) == "introspection.introspectRemoteSchema" {
					continue
				}
				n++
				r.Check(!inAnyLoop(e.Site.Block()), rule, fnName(fn), "calls "+e.Name, r.P.pos(e.Site.Pos()),
					"not inside a loop: one network call per invocation",
					"a network call sits inside a loop of "+fnName(fn)+": a request can be sent repeatedly (retry) — a mutation would be applied more than once")
			}
		}
	}
	r.AtLeast(rule, "send-chain call sites", n, 10)

	// R12c: downstream requests are not marked replayable — net/http's transport silently
	// re-sends a request that carries Idempotency-Key / X-Idempotency-Key when a reused
	// connection dies, which would deliver a batch (mutations included) twice
	for _, fn := range r.P.Funcs {
		if topFn(fn).Pkg == nil || shortPkg(topFn(fn).Pkg.Pkg.Path()) != "queryer" {
			continue
		}
		for _, ins := range allInstrs(fn) {
			ci, ok := ins.(ssa.CallInstruction)
			if !ok {
				continue
			}
			cn := calleeName(ci.Common())
			if cn != "(net/http.Header).Set" && cn != "(net/http.Header).Add" || len(ci.Common().Args) < 2 {
				continue
			}
			k, isConst := ci.Common().Args[1].(*ssa.Const)
			key := ""
			if isConst && k.Value != nil {
				key = strings.ToLower(strings.Trim(k.Value.ExactString(), `"`))
			}
			r.Check(key != "idempotency-key" && key != "x-idempotency-key", "R12c", fnName(fn), "request header "+key, r.P.pos(ins.Pos()),
				"header does not change the transport's retry behaviour", "the downstream request is given an (X-)Idempotency-Key header: Go's http.Transport treats such a request as replayable and silently re-sends it when a reused connection fails before the response — the service can receive the same batch twice")
		}
	}

	// one pass per depth: the loop around de.Execute has a strictly increasing induction variable
	mgr := r.Anchor(rule, "executor.(*DepthExecutorManager).Execute")
	if mgr != nil {
		passes := depthPassSites(r, mgr)
		r.AtLeast(rule, "calls of DepthExecutor.Execute under the manager", len(passes), 1)
		for _, ps := range passes {
			e := ps.edge
			loop := innermostLoop(e.Site.Block())
			ok := false
			if loop != nil {
				for b := range loop {
					for _, ins := range b.Instrs {
						p, isPhi := ins.(*ssa.Phi)
						if !isPhi {
							continue
						}
						// phi[0, phi+1] used as the map key of depthExecutors
						stepOK := false
						for i, ed := range p.Edges {
							if loop[p.Block().Preds[i]] {
								if add, ok := ed.(*ssa.BinOp); ok && add.Op == token.ADD && add.X == ssa.Value(p) && isIntConst(add.Y, 1) {
									stepOK = true
								}
							}
						}
						if stepOK {
							for _, ref := range *p.Referrers() {
								if lk, ok := ref.(*ssa.Lookup); ok && loop[lk.Block()] {
									ok = true
									_ = lk
								}
							}
							ok = true
						}
					}
				}
				// the Execute call must not be in a loop nested inside that loop
				for b := range loop {
					_ = b
				}
			}
			r.Check(ok, rule, fnName(mgr), "one DepthExecutor.Execute per depth", r.P.pos(e.Site.Pos()),
				"the call sits in the depth loop whose counter advances by one per iteration",
				"DepthExecutor.Execute is not called exactly once per plan depth")
		}
	}

	// grouping key: lo.PartitionBy(ers, x => x.QueryPlanStep.URL), and the queryer is chosen by the same field
	ex := r.Anchor(rule, "executor.(*DepthExecutor).Execute")
	if ex != nil {
		found := false
		for _, ins := range allInstrs(ex) {
			c, ok := ins.(*ssa.Call)
			if !ok || !strings.HasPrefix(calleeName(&c.Call), "github.com/samber/lo.PartitionBy") {
				continue
			}
			found = true
			fs, _ := r.P.CG.funcValues(c.Call.Args[1], map[ssa.Value]bool{})
			okKey := len(fs) == 1
			if okKey {
				for _, ret := range returnsOf(fs[0]) {
					v := retVals(ret)[0]
					ld, isLd := v.(*ssa.UnOp)
					if !isLd || ld.Op != token.MUL {
						okKey = false
						continue
					}
					fa, isFA := ld.X.(*ssa.FieldAddr)
					if !isFA || fieldOf(fa) == nil || fieldOf(fa).Name() != "URL" || namedOf(fa.X.Type()) != plannerPkg+".QueryPlanStep" {
						okKey = false
					}
				}
			}
			r.Check(okKey, rule, fnName(ex), "requests grouped by service URL", r.P.pos(c.Pos()),
				"lo.PartitionBy key is QueryPlanStep.URL: all requests of one level for one service travel in one Query call",
				"the requests of a level are no longer grouped by the service URL of their step: one service receives several batched calls per level (and de-duplication no longer spans sibling steps)")
			// the partitions must be the payload of the fan-out
			// — directly, or over the indexes lo.Range(len(groups)) with the worker taking
			// groups[index] (each group at its own position)
			call, mapF, _ := r.amrSite(ex)
			okFan := call != nil && call.Call.Args[0] == ssa.Value(c)
			if call != nil && !okFan && mapF != nil && len(mapF.Params) == 1 {
				if rc, isCall := unwrap(call.Call.Args[0]).(*ssa.Call); isCall && strings.HasSuffix(calleeName(&rc.Call), "lo.Range") && len(rc.Call.Args) == 1 {
					if lc, isLen := rc.Call.Args[0].(*ssa.Call); isLen {
						if b, isB := lc.Call.Value.(*ssa.Builtin); isB && b.Name() == "len" && viaCell(lc.Call.Args[0]) == ssa.Value(c) {
							// every use of the worker's index is groups[index]
							okFan = indexOnlySelectsAndIsCarried(r, mapF.Params[0], true, 0)
						}
					}
				}
			}
			if !okFan {
				r.Bad(rule, fnName(ex), "fan-out over URL groups", r.P.pos(c.Pos()), "the AsyncMapReduce fan-out of a level is not over the URL groups (neither the groups themselves nor their indexes with one worker per group)")
			}
		}
		if !found {
			r.Bad(rule, fnName(ex), "requests grouped by service URL", r.P.pos(ex.Pos()), "lo.PartitionBy grouping not found: requests of a level are not grouped per service")
		}
	}
}

// dedupKeySite is one place where a de-duplication key is computed: directly in setIMap, or
// in a helper it calls with the request variables (`sharedLookupKey(req, variables)`).
type dedupKeySite struct {
	fn   *ssa.Function
	vars ssa.Value         // the request variables in fn
	key  ssa.Value         // the key value in fn
	at   *ssa.BasicBlock   // the block that hands the key on (the Set call / the return)
	ok   []*ssa.BasicBlock // in the callers: blocks that use the key; must lie on the helper's ok side
	okOf []ssa.Value       // the helper's boolean result at those callers
}

// keyAlternative: one of the values a key may take and the block that hands it on.
type keyAlternative struct {
	v  ssa.Value
	at *ssa.BasicBlock
}

// keyAlternatives: a key chosen before it is handed on (`key := strconv.Itoa(index); if … { key
// = … }`) is a phi: each of its alternatives is a key of its own, handed on by the block the
// alternative comes from.
func keyAlternatives(v ssa.Value, at *ssa.BasicBlock) []keyAlternative {
	var out []keyAlternative
	seen := map[ssa.Value]bool{}
	var expand func(v ssa.Value, at *ssa.BasicBlock)
	expand = func(v ssa.Value, at *ssa.BasicBlock) {
		if seen[v] {
			return
		}
		seen[v] = true
		if phi, ok := v.(*ssa.Phi); ok {
			for i, e := range phi.Edges {
				expand(e, phi.Block().Preds[i])
			}
			return
		}
		out = append(out, keyAlternative{v, at})
	}
	expand(v, at)
	return out
}

// isPositionalKey: the fallback key strconv.Itoa(index): unique per request, no de-duplication.
func isPositionalKey(v ssa.Value) bool {
	kc, ok := v.(*ssa.Call)
	return ok && calleeName(&kc.Call) == "strconv.Itoa"
}

// resolveDedupKey follows a key that is the result of a module helper into that helper: the
// checks are then made on what the helper returns (together with `true` when it also answers
// whether there is a shared key). A helper that makes the whole choice (`requestDedupKey(index,
// req, variables)`) returns the positional key on some of its exits: those are not
// de-duplicating keys and are reported through unique.
func resolveDedupKey(s dedupKeySite, depth int, unique *bool) []dedupKeySite {
	var call *ssa.Call
	idx := 0
	switch x := s.key.(type) {
	case *ssa.Extract:
		if c, ok := x.Tuple.(*ssa.Call); ok {
			call, idx = c, x.Index
		}
	case *ssa.Call:
		call = x
	}
	if call == nil || depth > 2 {
		return []dedupKeySite{s}
	}
	g := call.Call.StaticCallee()
	if g == nil || !inModule(g) || len(g.Blocks) == 0 || call.Call.IsInvoke() {
		return []dedupKeySite{s}
	}
	pi := -1
	for i, a := range call.Call.Args {
		if a == s.vars && i < len(g.Params) {
			pi = i
		}
	}
	if pi < 0 {
		return []dedupKeySite{s}
	}
	// the helper's boolean result, as seen by the caller
	var okv ssa.Value
	bi := -1
	for i := 0; i < g.Signature.Results().Len(); i++ {
		if shortType(g.Signature.Results().At(i).Type()) == "bool" {
			bi = i
		}
	}
	if bi >= 0 && call.Referrers() != nil {
		for _, ref := range *call.Referrers() {
			if ex, ok := ref.(*ssa.Extract); ok && ex.Index == bi {
				okv = ex
			}
		}
	}
	var out []dedupKeySite
	positional := false
	for _, ret := range returnsOf(g) {
		rv := retVals(ret)
		if idx >= len(rv) {
			continue
		}
		if bi >= 0 && bi < len(rv) {
			if k, isConst := rv[bi].(*ssa.Const); isConst && k.Value != nil && k.Value.ExactString() == "false" {
				continue // "no shared key" exit
			}
		}
		for _, alt := range keyAlternatives(rv[idx], ret.Block()) {
			if isPositionalKey(alt.v) {
				positional = true
				continue
			}
			n := dedupKeySite{fn: g, vars: g.Params[pi], key: alt.v, at: alt.at, ok: append(append([]*ssa.BasicBlock{}, s.ok...), s.at), okOf: append(append([]ssa.Value{}, s.okOf...), okv)}
			if bi < 0 {
				n.ok, n.okOf = s.ok, s.okOf
			}
			out = append(out, resolveDedupKey(n, depth+1, unique)...)
		}
	}
	if len(out) == 0 {
		return []dedupKeySite{s}
	}
	if positional && unique != nil {
		*unique = true
	}
	return out
}

// onTrueSide: block b is reached only when the boolean v holds.
func onTrueSide(v ssa.Value, b *ssa.BasicBlock) bool {
	if v == nil || v.Referrers() == nil {
		return false
	}
	var tests []ssa.Value
	tests = append(tests, v)
	for _, iff := range allInstrs(b.Parent()) {
		i, ok := iff.(*ssa.If)
		if !ok {
			continue
		}
		var side *ssa.BasicBlock
		if i.Cond == v {
			side = i.Block().Succs[0]
		} else if un, isUn := i.Cond.(*ssa.UnOp); isUn && un.Op == token.NOT && un.X == v {
			side = i.Block().Succs[1]
		}
		if side != nil && len(side.Preds) == 1 && (side == b || side.Dominates(b)) {
			return true
		}
	}
	return false
}

func ruleDedup(r *Run) {
	const rule = "R13k"
	set := r.Anchor(rule, "executor.(*DepthExecutor).setIMap")
	if set != nil && len(set.Params) >= 4 {
		n := 0
		for _, ins := range allInstrs(set) {
			c, ok := ins.(*ssa.Call)
			if !ok || !strings.HasSuffix(calleeName(&c.Call), "executor.indexMap).Set") || len(c.Call.Args) != 4 {
				continue
			}
			// a key chosen before a single Set call (`key := strconv.Itoa(index); if … { key = … }`)
			// is a phi: each of its alternatives is a key of its own, handed on by the block the
			// alternative comes from; a key that a helper of the module returns is judged there
			var sites []dedupKeySite
			unique := false
			for _, alt := range keyAlternatives(c.Call.Args[3], c.Block()) {
				// the fallback key is strconv.Itoa(index): unique per request, no de-duplication
				if isPositionalKey(alt.v) {
					unique = true
					continue
				}
				sites = append(sites, resolveDedupKey(dedupKeySite{fn: set, vars: set.Params[3], key: alt.v, at: alt.at}, 0, &unique)...)
			}
			if unique {
				r.OK(rule, fnName(set), "unique key", r.P.pos(c.Pos()), "requests that are not id-only node lookups get a key that is unique per request (their index)")
			}
			if len(sites) == 0 {
				continue
			}
			n++
			for _, ks := range sites {
				fn, vars, key := ks.fn, ks.vars, ks.key
				site := r.P.pos(c.Pos())
				if fn != set {
					site = r.P.pos(fn.Pos())
				}
				// depends on variables["id"] and on QueryStringHash
				depID := false
				for _, i2 := range allInstrs(fn) {
					if lk, ok := i2.(*ssa.Lookup); ok && lk.X == vars {
						if k, ok := lk.Index.(*ssa.Const); ok && k.Value != nil && k.Value.ExactString() == `"id"` {
							for _, ref := range *lk.Referrers() {
								if ex, ok := ref.(*ssa.Extract); ok && ex.Index == 0 && dependsOnThroughMem(key, ex) {
									depID = true
								}
							}
							if !lk.CommaOk && dependsOnThroughMem(key, lk) {
								depID = true
							}
						}
					}
				}
				depHash := dependsOnFieldThroughMem(key, "QueryStringHash")
				r.Check(depID, rule, fnName(fn), "dedup key includes the entity id", site,
					"the key is computed from variables[\"id\"]",
					"the de-duplication key does not depend on the entity id taken from the request variables: lookups of different entities can collapse, or the same entity is fetched once per list position")
				r.Check(depHash, rule, fnName(fn), "dedup key includes the sub-query hash", site,
					"the key is computed from QueryPlanStep.QueryStringHash",
					"the de-duplication key ignores the sub-query: two different sub-queries for the same entity would share one answer")
				// … and on nothing else: whatever more goes into the key splits lookups that ask
				// the same service the same thing about the same entity (the step's insertion
				// point, for instance: the same author under two branches is then fetched twice)
				var extra []string
				for _, lf := range inputPaths(key).leaves {
					if strings.HasSuffix(lf.path, "[id]") || strings.Contains(lf.path, "QueryStringHash") {
						continue
					}
					if _, isGlobal := lf.root.(*ssa.Global); isGlobal {
						continue
					}
					d := leafName(lf.root)
					if lf.path != "" {
						d += "." + lf.path
					}
					extra = append(extra, d)
				}
				sort.Strings(extra)
				r.Check(len(extra) == 0, rule, fnName(fn), "dedup key made of the entity id and the sub-query only", site,
					"nothing but variables[\"id\"] and QueryStringHash goes into the key",
					"the de-duplication key also depends on "+strings.Join(extra, ", ")+": lookups that ask one service the same sub-query about the same entity no longer collapse when they differ there (the same entity reached through two steps is sent twice), so the size of a batch follows the shape of the result")
				// guard: len(variables) == 1 (in either polarity) on the way to the key
				guarded := false
				for _, i2 := range allInstrs(fn) {
					iff, ok := i2.(*ssa.If)
					if !ok {
						continue
					}
					bo, ok := iff.Cond.(*ssa.BinOp)
					if !ok || (bo.Op != token.EQL && bo.Op != token.NEQ) || !isIntConst(bo.Y, 1) {
						continue
					}
					lc, ok := bo.X.(*ssa.Call)
					if !ok {
						continue
					}
					if b, ok := lc.Call.Value.(*ssa.Builtin); ok && b.Name() == "len" && lc.Call.Args[0] == vars {
						s := iff.Block().Succs[0]
						if bo.Op == token.NEQ {
							s = iff.Block().Succs[1]
						}
						if len(s.Preds) == 1 && (s == ks.at || s.Dominates(ks.at)) {
							guarded = true
						}
					}
				}
				// a helper's key is used only where the helper said "shared"
				for i, b := range ks.ok {
					if !onTrueSide(ks.okOf[i], b) {
						guarded = false
					}
				}
				r.Check(guarded, rule, fnName(fn), "dedup only without other variables", site,
					"de-duplication happens only under len(variables) == 1 (the id alone)",
					"requests are de-duplicated although they may carry other variables than the id: answers computed for different variable values would be shared")
			}
		}
		r.AtLeast(rule, "de-duplicating Set calls", n, 1)
	}
	// copy per place
	exq := r.Anchor(rule, "executor.(*DepthExecutor).executeRequests")
	if exq != nil {
		n := 0
		for _, ins := range allInstrs(exq) {
			st, ok := ins.(*ssa.Store)
			if !ok {
				continue
			}
			fa, ok := st.Addr.(*ssa.FieldAddr)
			if !ok || fieldOf(fa) == nil || fieldOf(fa).Name() != "Response" || !strings.HasSuffix(namedOf(fa.X.Type()), "executor.queryerResponse") {
				continue
			}
			// the response value: result of a deep-copying function or a fresh map literal
			v := st.Val
			if _, isMake := v.(*ssa.MakeMap); isMake {
				continue
			}
			n++
			var cp *ssa.Call
			switch x := v.(type) {
			case *ssa.Extract:
				if c, ok := x.Tuple.(*ssa.Call); ok && x.Index == 0 {
					cp = c
				}
			case *ssa.Call:
				cp = x
			}
			var cpFn *ssa.Function
			if cp != nil && !cp.Call.IsInvoke() {
				if sc := cp.Call.StaticCallee(); sc != nil && inModule(sc) && len(sc.Blocks) > 0 {
					cpFn = sc
				}
			}
			if cpFn == nil {
				r.Bad(rule, fnName(exq), "response copy per place", r.P.pos(st.Pos()), "a downstream answer is stored for an insertion point without being copied: de-duplicated answers would be shared between places and later merges/scrubs of one place would corrupt the others")
				continue
			}
			deep, why := deepCopier(cpFn)
			r.Check(deep, rule, fnName(cpFn), "copy of a shared answer is deep", r.P.pos(cpFn.Pos()),
				"the copy shares nothing with its source: "+why,
				"the function that copies a de-duplicated answer for each place does not copy the nested objects ("+why+"): the places share them, and they are stitched and scrubbed once per place — scrubbing one place strips the helper fields the other place still needs, later merges leak between places")
			loop := innermostLoop(st.Block())
			r.Check(loop != nil && loop[cp.Block()], rule, fnName(exq), "response copy per place", r.P.pos(cp.Pos()),
				"the copy is made inside the loop over the places that share the answer: one deep copy per place",
				"the answer of a de-duplicated lookup is copied once and that one map is stored for every place that needs it: the places then share nested objects, which are stitched and scrubbed once per place (C13: the second scrub no longer sees __typename and picks a helper list by map order; C01: later merges leak between places)")
		}
		r.AtLeast(rule, "stores of downstream answers", n, 1)

		// R13k.slot: a request takes a target index (setIMap says "new") exactly when it adds
		// one entry to the batch: the i-th answer belongs to the requests mapped to target i
		var batchT string
		for _, fn := range r.P.Funcs {
			if topFn(fn).Pkg != exq.Pkg {
				continue
			}
			for _, e := range r.P.CG.Ext[fn] {
				if e.Name == "github.com/buildbuildio/pebbles/queryer.Queryer.Query" && len(e.Site.Common().Args) == 1 {
					batchT = e.Site.Common().Args[0].Type().String()
				}
			}
		}
		isBatchAppend := func(ins ssa.Instruction) bool {
			c, ok := ins.(*ssa.Call)
			if !ok {
				return false
			}
			b, isB := c.Call.Value.(*ssa.Builtin)
			return isB && b.Name() == "append" && c.Type().String() == batchT
		}
		m := 0
		// wherever the request loop lives (executeRequests or a helper that prepares the batch)
		var setCalls []*Edge
		if set != nil {
			setCalls = r.P.CG.In[set]
		}
		for _, e := range setCalls {
			c, ok := e.Site.(*ssa.Call)
			if !ok || e.Kind != "static" {
				continue
			}
			exq := e.Caller
			m++
			loop := innermostLoop(c.Block())
			var fresh *ssa.BasicBlock
			for _, ref := range *c.Referrers() {
				if iff, ok := ref.(*ssa.If); ok && iff.Cond == ssa.Value(c) {
					fresh = iff.Block().Succs[0]
				}
				if un, ok := ref.(*ssa.UnOp); ok && un.Op == token.NOT {
					for _, r2 := range *un.Referrers() {
						if iff, ok := r2.(*ssa.If); ok {
							fresh = iff.Block().Succs[1]
						}
					}
				}
			}
			good := loop != nil && fresh != nil && len(fresh.Preds) == 1 && batchT != ""
			why := "the result of setIMap is not tested inside the request loop"
			if good {
				// every way from "new target index" back to the loop header adds one batch entry
				var header *ssa.BasicBlock
				for b := range loop {
					for _, p := range b.Preds {
						if !loop[p] {
							header = b
						}
					}
				}
				min, max, cyclic := appendsToHeader(fresh, header, loop, isBatchAppend)
				if cyclic || min != 1 || max != 1 {
					good = false
					why = fmt.Sprintf("after setIMap reported a new target index, %d..%d entries are added to the batch before the next request is looked at", min, max)
				}
				// and nothing else adds to the batch
				for b := range loop {
					for _, i2 := range b.Instrs {
						if isBatchAppend(i2) && !(fresh == b || fresh.Dominates(b)) {
							good = false
							why = "the batch also grows where no target index was taken"
						}
					}
				}
			}
			r.Check(good, "R13k.slot", fnName(exq), "one batch entry per new target index", r.P.pos(c.Pos()),
				"a request is appended to the batch exactly when setIMap gave it a new target index, so answer i belongs to target index i",
				"target indexes and batch positions drift apart ("+why+"): a request that is skipped after it took an index leaves a gap, every later answer is handed to the wrong requests and one place gets no answer at all")
		}
		if set != nil {
			r.AtLeast("R13k.slot", "setIMap calls", m, 1)
		}
	}
}

// appendsToHeader: the smallest and largest number of instructions satisfying pred on the paths
// from start to the loop header that stay inside the loop (paths that leave the loop — an
// error return — give up the whole batch and do not count). cyclic: an inner cycle was met.
func appendsToHeader(start, header *ssa.BasicBlock, loop map[*ssa.BasicBlock]bool, pred func(ssa.Instruction) bool) (min, max int, cyclic bool) {
	type res struct {
		min, max int
		ok       bool
	}
	memo := map[*ssa.BasicBlock]*res{}
	on := map[*ssa.BasicBlock]bool{}
	var visit func(b *ssa.BasicBlock) res
	visit = func(b *ssa.BasicBlock) res {
		if b == header {
			return res{0, 0, true}
		}
		if !loop[b] {
			return res{}
		}
		if m := memo[b]; m != nil {
			return *m
		}
		if on[b] {
			cyclic = true
			return res{}
		}
		on[b] = true
		defer func() { on[b] = false }()
		sum := 0
		for _, i := range b.Instrs {
			if pred(i) {
				sum++
			}
		}
		out := res{}
		for _, s := range b.Succs {
			sr := visit(s)
			if !sr.ok {
				continue
			}
			if !out.ok {
				out = res{sum + sr.min, sum + sr.max, true}
				continue
			}
			if sum+sr.min < out.min {
				out.min = sum + sr.min
			}
			if sum+sr.max > out.max {
				out.max = sum + sr.max
			}
		}
		memo[b] = &out
		return out
	}
	r := visit(start)
	if !r.ok {
		return 0, 0, cyclic
	}
	return r.min, r.max, cyclic
}

// deepCopier: every value fn returns as its first result shares no container with fn's
// arguments: it went through a JSON round trip, or it is built from fresh maps/slices whose
// elements are themselves produced by deep copiers (scalars may be passed on as they are).
func deepCopier(fn *ssa.Function) (bool, string) {
	return deepCopierRec(fn, map[*ssa.Function]bool{})
}

func deepCopierRec(fn *ssa.Function, busy map[*ssa.Function]bool) (bool, string) {
	if busy[fn] {
		return true, "" // recursion: judged by the outer invocation
	}
	busy[fn] = true
	defer delete(busy, fn)
	if len(fn.Blocks) == 0 || fn.Signature.Results().Len() == 0 {
		return false, fnName(fn) + " has no body or no result"
	}
	// JSON round trip: the result is what json.Unmarshal decoded from json.Marshal(param)
	jsonTargets := map[*ssa.Alloc]bool{}
	for _, ins := range allInstrs(fn) {
		c, ok := ins.(*ssa.Call)
		if !ok || calleeName(&c.Call) != "encoding/json.Unmarshal" || len(c.Call.Args) != 2 {
			continue
		}
		al, isAl := unwrap(c.Call.Args[1]).(*ssa.Alloc)
		if !isAl {
			continue
		}
		fromMarshal := false
		for _, i2 := range allInstrs(fn) {
			m, ok := i2.(*ssa.Call)
			if !ok || calleeName(&m.Call) != "encoding/json.Marshal" || len(m.Call.Args) != 1 {
				continue
			}
			if _, isParam := unwrap(m.Call.Args[0]).(*ssa.Parameter); isParam && dependsOn(c.Call.Args[0], m) {
				fromMarshal = true
			}
		}
		if fromMarshal {
			jsonTargets[al] = true
		}
	}
	var val func(v ssa.Value, ret *ssa.Return, depth int) (bool, string)
	val = func(v ssa.Value, ret *ssa.Return, depth int) (bool, string) {
		if depth > 8 {
			return false, "too deep"
		}
		if b, isBasic := v.Type().Underlying().(*types.Basic); isBasic && b.Kind() != types.UnsafePointer {
			return true, ""
		}
		switch x := v.(type) {
		case *ssa.Const:
			return true, ""
		case *ssa.MakeInterface:
			return val(x.X, ret, depth+1)
		case *ssa.ChangeType:
			return val(x.X, ret, depth+1)
		case *ssa.Phi:
			for _, e := range x.Edges {
				if ok, why := val(e, ret, depth+1); !ok {
					return false, why
				}
			}
			return true, ""
		case *ssa.UnOp:
			if al, isAl := x.X.(*ssa.Alloc); isAl && x.Op == token.MUL && jsonTargets[al] {
				return true, ""
			}
		case *ssa.MakeMap:
			for _, ref := range *x.Referrers() {
				if mu, ok := ref.(*ssa.MapUpdate); ok && mu.Map == ssa.Value(x) {
					if ok, why := val(mu.Value, ret, depth+1); !ok {
						return false, "an entry of the new map is " + why
					}
				}
			}
			return true, ""
		case *ssa.MakeSlice:
			for _, ref := range *x.Referrers() {
				switch y := ref.(type) {
				case *ssa.IndexAddr:
					for _, r2 := range *y.Referrers() {
						if st, ok := r2.(*ssa.Store); ok && st.Addr == ssa.Value(y) {
							if ok, why := val(st.Val, ret, depth+1); !ok {
								return false, "an element of the new slice is " + why
							}
						}
					}
				case *ssa.Call:
					if b, isB := y.Call.Value.(*ssa.Builtin); isB && (b.Name() == "copy" || b.Name() == "append") {
						if _, scalar := x.Type().Underlying().(*types.Slice).Elem().Underlying().(*types.Basic); !scalar {
							return false, "the new slice is filled with copy/append of the source's elements"
						}
					}
				}
			}
			return true, ""
		case *ssa.Extract:
			if c, ok := x.Tuple.(*ssa.Call); ok && x.Index == 0 {
				return val(c, ret, depth+1)
			}
		case *ssa.Call:
			if sc := x.Call.StaticCallee(); sc != nil && !x.Call.IsInvoke() && inModule(sc) && len(sc.Blocks) > 0 {
				return deepCopierRec(sc, busy)
			}
			return false, "the result of " + calleeDesc(&x.Call)
		case *ssa.Parameter:
			// handed back as it is: fine for a scalar held in an interface, i.e. where the
			// assertions to a map type and to a slice type have both failed
			if _, isIface := x.Type().Underlying().(*types.Interface); isIface && ret != nil {
				gotMap, gotSlice := false, false
				for _, ins := range allInstrs(fn) {
					iff, ok := ins.(*ssa.If)
					if !ok {
						continue
					}
					ex, ok := iff.Cond.(*ssa.Extract)
					if !ok || ex.Index != 1 {
						continue
					}
					ta, ok := ex.Tuple.(*ssa.TypeAssert)
					if !ok || ta.X != ssa.Value(x) {
						continue
					}
					no := iff.Block().Succs[1]
					if len(no.Preds) != 1 || !(no == ret.Block() || no.Dominates(ret.Block())) {
						continue
					}
					switch ta.AssertedType.Underlying().(type) {
					case *types.Map:
						gotMap = true
					case *types.Slice:
						gotSlice = true
					}
				}
				if gotMap && gotSlice {
					return true, ""
				}
				return false, "the argument " + x.Name() + " itself, returned without having been told apart from a map and a list"
			}
			return false, "the argument " + x.Name() + " itself"
		}
		return false, "the source's own value (" + strings.TrimPrefix(fmt.Sprintf("%T", v), "*ssa.") + " " + v.Name() + ")"
	}
	rets := returnsOf(fn)
	for _, ret := range rets {
		if ok, why := val(retVals(ret)[0], ret, 0); !ok {
			return false, why
		}
	}
	if len(rets) == 0 {
		return false, "no return"
	}
	how := "built from new maps/lists whose entries are copied in turn"
	if len(jsonTargets) > 0 {
		how = "it is decoded from the JSON encoding of the source"
	}
	return true, how
}

// dependsOnThroughMem: like dependsOn, but also follows values stored into the variadic
// argument array of fmt.Sprintf-style calls.
// structParts: v is a local struct (its cell, or a load of it): the values stored into it, whole
// or field by field (`key := dedupKey{id: id, hash: h}` … `key.String()`).
func structParts(v ssa.Value) []ssa.Value {
	var al *ssa.Alloc
	switch x := v.(type) {
	case *ssa.Alloc:
		al = x
	case *ssa.UnOp:
		if x.Op == token.MUL {
			al, _ = x.X.(*ssa.Alloc)
		}
	}
	if al == nil || al.Referrers() == nil {
		return nil
	}
	var out []ssa.Value
	for _, ref := range *al.Referrers() {
		switch x := ref.(type) {
		case *ssa.Store:
			if x.Addr == ssa.Value(al) {
				out = append(out, x.Val)
			}
		case *ssa.FieldAddr:
			if x.Referrers() != nil {
				for _, r2 := range *x.Referrers() {
					if st, ok := r2.(*ssa.Store); ok && st.Addr == ssa.Value(x) {
						out = append(out, st.Val)
					}
				}
			}
		}
	}
	return out
}

func dependsOnThroughMem(v, target ssa.Value) bool {
	seen := map[ssa.Value]bool{}
	var f func(v ssa.Value) bool
	f = func(v ssa.Value) bool {
		if v == target {
			return true
		}
		if seen[v] {
			return false
		}
		seen[v] = true
		for _, part := range structParts(v) {
			if f(part) {
				return true
			}
		}
		switch x := v.(type) {
		case *ssa.Slice:
			// slice of a fresh array: look at the stores into its elements
			if al, ok := x.X.(*ssa.Alloc); ok {
				for _, ref := range *al.Referrers() {
					if ia, ok := ref.(*ssa.IndexAddr); ok {
						for _, r2 := range *ia.Referrers() {
							if st, ok := r2.(*ssa.Store); ok && f(st.Val) {
								return true
							}
						}
					}
				}
			}
		}
		ins, ok := v.(ssa.Instruction)
		if !ok {
			return false
		}
		for _, op := range operandsOf(ins) {
			if f(op) {
				return true
			}
		}
		return false
	}
	return f(v)
}

func dependsOnFieldThroughMem(v ssa.Value, field string) bool {
	seen := map[ssa.Value]bool{}
	var f func(v ssa.Value) bool
	f = func(v ssa.Value) bool {
		if seen[v] {
			return false
		}
		seen[v] = true
		if ld, ok := v.(*ssa.UnOp); ok && ld.Op == token.MUL {
			if fa, ok := ld.X.(*ssa.FieldAddr); ok && fieldOf(fa) != nil && fieldOf(fa).Name() == field {
				return true
			}
		}
		if fa, ok := v.(*ssa.FieldAddr); ok && fieldOf(fa) != nil && fieldOf(fa).Name() == field {
			return true
		}
		for _, part := range structParts(v) {
			if f(part) {
				return true
			}
		}
		if x, ok := v.(*ssa.Slice); ok {
			if al, ok := x.X.(*ssa.Alloc); ok {
				for _, ref := range *al.Referrers() {
					if ia, ok := ref.(*ssa.IndexAddr); ok {
						for _, r2 := range *ia.Referrers() {
							if st, ok := r2.(*ssa.Store); ok && f(st.Val) {
								return true
							}
						}
					}
				}
			}
		}
		ins, ok := v.(ssa.Instruction)
		if !ok {
			return false
		}
		for _, op := range operandsOf(ins) {
			if f(op) {
				return true
			}
		}
		return false
	}
	return f(v)
}

// ruleFailFast (R12d): inside the depth loop of DepthExecutorManager.Execute, the failure side
// of DepthExecutor.Execute and of merge leaves the loop; it never reaches the back edge (a
// later iteration would run the same requests again).
func ruleFailFast(r *Run) {
	const rule = "R12d"
	mgr := r.Anchor(rule, "executor.(*DepthExecutorManager).Execute")
	if mgr == nil {
		return
	}
	recvOf := func(fn *ssa.Function) string {
		if fn.Signature.Recv() == nil {
			return ""
		}
		return namedOf(fn.Signature.Recv().Type())
	}
	n := 0
	// inHelper: the failure tests of the calls a helper of the manager makes (the loop body, or
	// part of it, moved into a method of the same type): a failure must leave the helper with
	// a non-nil error, which the caller's own test (checked like any other) turns into the
	// end of the loop
	var inHelper func(h *ssa.Function, depth int)
	seenHelper := map[*ssa.Function]bool{mgr: true}
	inHelper = func(h *ssa.Function, depth int) {
		if seenHelper[h] || depth > 3 {
			return
		}
		seenHelper[h] = true
		for _, ins := range allInstrs(h) {
			c, ok := ins.(*ssa.Call)
			if !ok {
				continue
			}
			if sc := c.Call.StaticCallee(); sc != nil && !c.Call.IsInvoke() && inModule(sc) && recvOf(sc) != "" && recvOf(sc) == recvOf(mgr) {
				inHelper(r.P.declared(sc), depth+1)
			}
			errv := errorOfCall(c)
			if errv == nil {
				continue
			}
			for _, t := range failureTests(errv) {
				n++
				reach := blockReach(t.fail)
				reach[t.fail] = true
				good := true
				for b := range reach {
					ret, isRet := b.Instrs[len(b.Instrs)-1].(*ssa.Return)
					if !isRet {
						continue
					}
					rv := retVals(ret)
					for i, v := range rv {
						if isErrorish(h.Signature.Results().At(i).Type()) && isNilConst(v) {
							good = false
						}
					}
				}
				r.Check(good, rule, fnName(h), "failure of "+calleeDesc(&c.Call)+" is reported to the depth loop", r.P.pos(c.Pos()),
					"every return on the failure side carries an error, which the depth loop tests", "after this call failed the helper can return without an error: the depth loop goes on and the next iteration executes the pending requests again (root mutations are sent once more per remaining depth)")
			}
		}
	}
	for _, ins := range allInstrs(mgr) {
		c, ok := ins.(*ssa.Call)
		if !ok {
			continue
		}
		loop := innermostLoop(c.Block())
		if loop == nil {
			continue
		}
		errv := errorOfCall(c)
		if errv == nil {
			continue
		}
		if sc := c.Call.StaticCallee(); sc != nil && !c.Call.IsInvoke() && inModule(sc) && recvOf(sc) != "" && recvOf(sc) == recvOf(mgr) {
			inHelper(r.P.declared(sc), 0)
		}
		for _, t := range failureTests(errv) {
			n++
			// can the failure side reach the loop header again?
			var header *ssa.BasicBlock
			for b := range loop {
				for _, p := range b.Preds {
					if !loop[p] {
						header = b
					}
				}
			}
			back := header != nil && (t.fail == header || blockReach(t.fail)[header])
			r.Check(!back, rule, fnName(mgr), "failure of "+calleeDesc(&c.Call)+" ends the depth loop", r.P.pos(c.Pos()),
				"the failure branch returns; no further depth is executed", "after a failing depth the loop goes on: the next iteration executes the pending requests again (root mutations are sent once more per remaining depth)")
		}
	}
	r.AtLeast(rule, "error tests inside the depth loop", n, 2)
}

// ruleStitchVariable (R13g): the variable the planner wraps child steps in (`node(id: $id)`)
// is the variable the executor fills with the entity id and keys de-duplication on.
func ruleStitchVariable(r *Run) {
	const rule = "R13g"
	conv := r.Anchor(rule, "planner.convertSelectionSetToNodeQuery")
	getv := r.Anchor(rule, "executor.(*DepthExecutor).getVariables")
	setm := r.Anchor(rule, "executor.(*DepthExecutor).setIMap")
	if conv == nil || getv == nil || setm == nil {
		return
	}
	var planned, argName, filled, looked []string
	for _, ins := range allInstrs(conv) {
		st, ok := ins.(*ssa.Store)
		if !ok {
			continue
		}
		fa, ok := st.Addr.(*ssa.FieldAddr)
		if !ok || fieldOf(fa) == nil {
			continue
		}
		k, isConst := st.Val.(*ssa.Const)
		if !isConst || k.Value == nil {
			continue
		}
		owner := namedOf(fa.X.Type())
		switch {
		case strings.HasSuffix(owner, "ast.Value") && fieldOf(fa).Name() == "Raw":
			planned = append(planned, strings.Trim(k.Value.ExactString(), `"`))
		case strings.HasSuffix(owner, "ast.Argument") && fieldOf(fa).Name() == "Name":
			argName = append(argName, strings.Trim(k.Value.ExactString(), `"`))
		}
	}
	for _, ins := range allInstrs(getv) {
		if mu, ok := ins.(*ssa.MapUpdate); ok && r.valueFromField(mu.Value, "ID", 0) {
			if k, ok := mu.Key.(*ssa.Const); ok && k.Value != nil {
				filled = append(filled, strings.Trim(k.Value.ExactString(), `"`))
			}
		}
	}
	// the lookups of the de-duplication key: in setIMap or in the helpers of its package it
	// hands the request variables to
	lookFns := []*ssa.Function{setm}
	for i := 0; i < len(lookFns) && i < 8; i++ {
		for _, e := range r.P.CG.Out[lookFns[i]] {
			if e.Kind != "static" || e.Callee.Pkg != setm.Pkg || e.Callee.Signature.Recv() != nil && e.Callee != setm {
				continue
			}
			dup := false
			for _, f := range lookFns {
				dup = dup || f == e.Callee
			}
			if !dup {
				lookFns = append(lookFns, e.Callee)
			}
		}
	}
	for _, lf := range lookFns {
		for _, ins := range allInstrs(lf) {
			if lk, ok := ins.(*ssa.Lookup); ok {
				if k, ok := lk.Index.(*ssa.Const); ok && k.Value != nil && k.Value.Kind() == constant.String {
					looked = append(looked, constant.StringVal(k.Value))
				}
			}
		}
	}
	ok := len(planned) == 1 && len(filled) == 1 && len(looked) >= 1 && planned[0] == filled[0]
	for _, l := range looked {
		if len(planned) == 1 && l != planned[0] {
			ok = false
		}
	}
	r.Check(ok, rule, fnName(getv), "stitched id variable agrees", r.P.pos(getv.Pos()),
		"planner uses $"+strings.Join(planned, ",")+" in node(id: …); the executor stores the entity id under the same name and de-duplicates on it (the name is not reserved: a client variable that is also called $"+strings.Join(planned, ",")+" and is used below an entity boundary is re-declared as ID! and overwritten by the entity id — audit 8, C1; this rule only shows that planner and executor agree on the name)",
		"the variable name the planner puts into `node(id: $…)` ("+strings.Join(planned, ",")+"), the name the executor stores the entity id under ("+strings.Join(filled, ",")+") and the name de-duplication looks up ("+strings.Join(looked, ",")+") differ: child steps are sent without their id")
	okArg := len(argName) == 1 && argName[0] == "id"
	r.Check(okArg, rule, fnName(conv), "node argument name", r.P.pos(conv.Pos()), "the wrapper calls node(id: …)", "the node wrapper no longer passes the argument `id` required by the Relay Node field")
}

// valueFromField: v is computed from a load of the named field — in the function itself, or
// v is a result of a call of a module function and, in every return of that function that hands
// back something else than a constant at that position (the zero value next to an error), the
// value handed back is computed from such a load (a helper that extracts the field).
func (r *Run) valueFromField(v ssa.Value, field string, depth int) bool {
	if dependsOnField(v, field) {
		return true
	}
	if depth > 2 {
		return false
	}
	v = unwrap(v)
	k := 0
	if ex, ok := v.(*ssa.Extract); ok {
		v, k = ex.Tuple, ex.Index
	}
	c, ok := v.(*ssa.Call)
	if !ok {
		return false
	}
	sc := c.Call.StaticCallee()
	if sc == nil {
		return false
	}
	h := r.P.declared(sc)
	if h == nil || !inModule(h) || h.Blocks == nil {
		return false
	}
	n := 0
	for _, ret := range returnsOf(h) {
		vals := retVals(ret)
		if k >= len(vals) {
			return false
		}
		if _, isConst := unwrap(vals[k]).(*ssa.Const); isConst {
			continue
		}
		if !r.valueFromField(vals[k], field, depth+1) {
			return false
		}
		n++
	}
	return n > 0
}

// maxHopsOnPath: the largest number of marked instructions on any entry-to-exit path of fn,
// computed on the condensation of the CFG (loops that contain no marked instruction count
// as one node of weight 0). inLoop reports that a marked instruction lies on a cycle.
func maxHopsOnPath(fn *ssa.Function, hop map[ssa.Instruction]bool) (max int, inLoop bool) {
	// Tarjan SCC
	index := map[*ssa.BasicBlock]int{}
	low := map[*ssa.BasicBlock]int{}
	on := map[*ssa.BasicBlock]bool{}
	comp := map[*ssa.BasicBlock]int{}
	var stack []*ssa.BasicBlock
	next, ncomp := 1, 0
	var strong func(b *ssa.BasicBlock)
	strong = func(b *ssa.BasicBlock) {
		index[b], low[b] = next, next
		next++
		stack = append(stack, b)
		on[b] = true
		for _, s := range b.Succs {
			if index[s] == 0 {
				strong(s)
				if low[s] < low[b] {
					low[b] = low[s]
				}
			} else if on[s] && index[s] < low[b] {
				low[b] = index[s]
			}
		}
		if low[b] == index[b] {
			for {
				x := stack[len(stack)-1]
				stack = stack[:len(stack)-1]
				on[x] = false
				comp[x] = ncomp
				if x == b {
					break
				}
			}
			ncomp++
		}
	}
	strong(fn.Blocks[0])
	weight := make([]int, ncomp)
	size := make([]int, ncomp)
	selfLoop := make([]bool, ncomp)
	succs := make([]map[int]bool, ncomp)
	for b, c := range comp {
		size[c]++
		for _, i := range b.Instrs {
			if hop[i] {
				weight[c]++
			}
		}
		for _, s := range b.Succs {
			if s == b {
				selfLoop[c] = true
			}
			if cs, ok := comp[s]; ok && cs != c {
				if succs[c] == nil {
					succs[c] = map[int]bool{}
				}
				succs[c][cs] = true
			}
		}
	}
	for c := 0; c < ncomp; c++ {
		if weight[c] > 0 && (size[c] > 1 || selfLoop[c]) {
			inLoop = true
		}
	}
	memo := map[int]int{}
	var longest func(c int) int
	longest = func(c int) int {
		if v, ok := memo[c]; ok {
			return v
		}
		best := 0
		for s := range succs[c] {
			if l := longest(s); l > best {
				best = l
			}
		}
		memo[c] = weight[c] + best
		return memo[c]
	}
	return longest(comp[fn.Blocks[0]]), inLoop
}

// viaCell looks through a load of a local cell that is stored to exactly once (a variable
// captured by a closure is spilled into such a cell): the stored value, else v itself.
func viaCell(v ssa.Value) ssa.Value {
	ld, ok := v.(*ssa.UnOp)
	if !ok || ld.Op != token.MUL {
		return v
	}
	al, ok := ld.X.(*ssa.Alloc)
	if !ok {
		return v
	}
	var val ssa.Value
	n := 0
	for _, ref := range *al.Referrers() {
		if st, ok := ref.(*ssa.Store); ok && st.Addr == ssa.Value(al) {
			n++
			val = st.Val
		}
	}
	if n == 1 {
		return val
	}
	return v
}

// ruleQueryHash (R13k.hash): QueryStringHash — one half of the de-duplication key — is the
// hash of the step's query string and of nothing else: a hash that also covers the insertion
// point (or anything else that differs between two steps asking the same question) makes
// identical lookups look different, and they are sent once per step.
func ruleQueryHash(r *Run) {
	const rule = "R13k.hash"
	n := 0
	for _, fn := range r.P.Funcs {
		var qsVal ssa.Value
		var qsStore *ssa.Store
		nQS := 0
		for _, ins := range allInstrs(fn) {
			if st, ok := ins.(*ssa.Store); ok {
				if fa, ok := st.Addr.(*ssa.FieldAddr); ok && fieldOf(fa) != nil && fieldOf(fa).Name() == "QueryString" && namedOf(fa.X.Type()) == plannerPkg+".QueryPlanStep" {
					qsVal = st.Val
					qsStore = st
					nQS++
				}
			}
		}
		for _, ins := range allInstrs(fn) {
			st, ok := ins.(*ssa.Store)
			if !ok {
				continue
			}
			fa, ok := st.Addr.(*ssa.FieldAddr)
			if !ok || fieldOf(fa) == nil || fieldOf(fa).Name() != "QueryStringHash" || namedOf(fa.X.Type()) != plannerPkg+".QueryPlanStep" {
				continue
			}
			if nQS != 1 {
				qsStore = nil // the field is read back only when it is assigned exactly once
			}
			if al, isAl := fa.X.(*ssa.Alloc); isAl && al.Parent() == fn {
				if _, isConst := st.Val.(*ssa.Const); isConst {
					continue // zero value in a literal
				}
			}
			n++
			good := false
			if c, ok := st.Val.(*ssa.Call); ok && strings.HasPrefix(calleeName(&c.Call), "crypto/sha") && len(c.Call.Args) == 1 && qsVal != nil {
				if cv, ok := c.Call.Args[0].(*ssa.Convert); ok && (cv.X == qsVal || loadsStoredField(cv.X, fa.X, "QueryString", qsStore)) {
					good = true
				}
			}
			r.Check(good, rule, fnName(fn), "QueryStringHash = hash(QueryString)", r.P.pos(st.Pos()),
				"the hash is a one-shot digest of exactly the string stored as QueryString",
				"QueryStringHash is no longer the digest of the step's query string alone: whatever else goes into it (the insertion point, a counter) tells apart steps that ask a service the same question, so the de-duplication key never matches across steps and the same entity is fetched once per step")
		}
		// a hash that is filled in some other way (copy into the array, element writes)
		for _, ins := range allInstrs(fn) {
			var base ssa.Value
			switch x := ins.(type) {
			case *ssa.Slice:
				base = x.X
			case *ssa.IndexAddr:
				base = x.X
			}
			if fa, ok := base.(*ssa.FieldAddr); ok && fieldOf(fa) != nil && fieldOf(fa).Name() == "QueryStringHash" && namedOf(fa.X.Type()) == plannerPkg+".QueryPlanStep" && topFn(fn).Pkg != nil && shortPkg(topFn(fn).Pkg.Pkg.Path()) == "planner" {
				n++
				r.Bad(rule, fnName(fn), "QueryStringHash filled piecewise", r.P.pos(ins.Pos()), "QueryStringHash is written through a slice/element of the array instead of being assigned the digest of the query string: what it covers can no longer be read off (see R13k: it must be the query string alone)")
			}
		}
	}
	r.AtLeast(rule, "assignments of QueryStringHash", n, 1)
}

// loadsStoredField: v is a load of field `field` of the object obj, read after the (only)
// store st to that field of the same object — the value read is the value stored.
func loadsStoredField(v, obj ssa.Value, field string, st *ssa.Store) bool {
	ld, ok := v.(*ssa.UnOp)
	if !ok || ld.Op != token.MUL || st == nil {
		return false
	}
	fa, ok := ld.X.(*ssa.FieldAddr)
	if !ok || fieldOf(fa) == nil || fieldOf(fa).Name() != field || fa.X != obj {
		return false
	}
	sfa, ok := st.Addr.(*ssa.FieldAddr)
	return ok && sfa.X == obj && instrDominates(st, ld)
}

// errorOfCall: the error value a call yields (nil if it has none).
func errorOfCall(site ssa.Instruction) ssa.Value {
	c, ok := site.(*ssa.Call)
	if !ok {
		return nil
	}
	if isErrorish(c.Type()) {
		return c
	}
	if c.Referrers() != nil {
		for _, ref := range *c.Referrers() {
			if ex, ok := ref.(*ssa.Extract); ok && isErrorish(ex.Type()) {
				return ex
			}
		}
	}
	return nil
}

// chainCycle: fn reaches itself through calls between send-chain functions; the cycle is
// described, "" if there is none.
func chainCycle(r *Run, fn *ssa.Function, chain map[*ssa.Function]bool) string {
	seen := map[*ssa.Function]bool{}
	var walk func(f *ssa.Function, path []string) string
	walk = func(f *ssa.Function, path []string) string {
		for _, e := range r.P.CG.Out[f] {
			if e.Kind == "param" || !chain[e.Callee] {
				continue
			}
			if e.Callee == fn {
				return strings.Join(append(path, fnName(fn)), " → ")
			}
			if seen[e.Callee] {
				continue
			}
			seen[e.Callee] = true
			if c := walk(e.Callee, append(path, fnName(e.Callee))); c != "" {
				return c
			}
		}
		return ""
	}
	return walk(fn, []string{fnName(fn)})
}

// hofAllowed: module helpers that run the function they are given once per element of a
// collection; their call sites are judged like a direct call.
var hofAllowed = map[string]string{
	"common.AsyncMapReduce": "the fan-out helper calls its mapper exactly once per input element (protocol R1): a fan-out over distinct elements, not a repetition",
}

// hofCallsOnce: e hands the function e.Callee to a module helper (a "hoarg" edge); the helper
// calls that parameter at most once per invocation — not in a loop, not twice on a path, not
// from a recursion, and it does not put it aside.
func (r *Run) hofCallsOnce(e *Edge) (bool, string) {
	var hs []*ssa.Function
	off := 0
	if e.Site.Common().IsInvoke() {
		off = 1 // the receiver is a parameter of the method but not an argument of the call
	}
	for _, e2 := range r.P.CG.Out[e.Caller] {
		if e2.Site == e.Site && (e2.Kind == "static" || e2.Kind == "invoke" || e2.Kind == "dynamic") {
			hs = append(hs, e2.Callee)
		}
	}
	if len(hs) == 0 {
		return false, "the helper it is handed to could not be resolved"
	}
	for _, h := range hs {
		if _, ok := hofAllowed[fnName(h)]; ok {
			continue
		}
		found := false
		for i, a := range e.Site.Common().Args {
			if _, isSig := a.Type().Underlying().(*types.Signature); !isSig || i+off >= len(h.Params) {
				continue
			}
			fs, _ := r.P.CG.funcValues(a, map[ssa.Value]bool{})
			for _, f := range fs {
				if origin(f) == e.Callee {
					found = true
					if once, why := paramCalledOnce(r, h, i+off, map[*ssa.Function]bool{}); !once {
						return false, why
					}
				}
			}
		}
		if !found {
			return false, "the argument position in " + fnName(h) + " could not be resolved"
		}
	}
	return true, ""
}

func paramCalledOnce(r *Run, h *ssa.Function, idx int, busy map[*ssa.Function]bool) (bool, string) {
	if busy[h] {
		return false, fnName(h) + " passes it to itself again (recursion)"
	}
	busy[h] = true
	defer delete(busy, h)
	if idx >= len(h.Params) || len(h.Blocks) == 0 {
		return false, fnName(h) + " has no body"
	}
	p := h.Params[idx]
	sites := map[ssa.Instruction]bool{}
	for _, ref := range *p.Referrers() {
		switch x := ref.(type) {
		case *ssa.DebugRef:
		case *ssa.Call:
			if x.Call.Value == ssa.Value(p) {
				sites[x] = true
				continue
			}
			g := x.Call.StaticCallee()
			if g == nil || x.Call.IsInvoke() || !inModule(g) {
				return false, fnName(h) + " hands it on to " + calleeDesc(&x.Call)
			}
			for j, a := range x.Call.Args {
				if a == ssa.Value(p) {
					if once, why := paramCalledOnce(r, r.P.declared(g), j, busy); !once {
						return false, why
					}
				}
			}
			sites[x] = true
		default:
			return false, fmt.Sprintf("%s keeps it for later (%s)", fnName(h), strings.TrimPrefix(fmt.Sprintf("%T", ref), "*ssa."))
		}
	}
	for s := range sites {
		if inAnyLoop(s.Block()) {
			return false, fnName(h) + " calls it inside a loop"
		}
	}
	if len(sites) > 0 {
		if max, cyclic := maxHopsOnPath(h, sites); max > 1 || cyclic {
			return false, fmt.Sprintf("%s calls it up to %d times on one path", fnName(h), max)
		}
	}
	return true, ""
}

// loopedBelow: the confirmed looped callees (keys of loopsAllowed for pkg) that every call
// path from fn to the sink passes through; nil if some path avoids them.
func loopedBelow(r *Run, fn *ssa.Function, chain map[*ssa.Function]bool, sink, pkg string) []string {
	var keys []string
	seen := map[*ssa.Function]bool{fn: true}
	work := []*ssa.Function{fn}
	for len(work) > 0 {
		f := work[len(work)-1]
		work = work[:len(work)-1]
		for _, x := range r.P.CG.Ext[f] {
			if x.Name == sink {
				return nil
			}
		}
		for _, e := range r.P.CG.Out[f] {
			if e.Kind == "param" || !chain[e.Callee] || seen[e.Callee] {
				continue
			}
			seen[e.Callee] = true
			k := pkg + " | " + fnName(e.Callee)
			if _, ok := loopsAllowed[k]; ok {
				if inAnyLoop(e.Site.Block()) {
					return nil // looped again below: judged (and charged) at that site
				}
				keys = append(keys, k)
				continue
			}
			work = append(work, e.Callee)
		}
	}
	sort.Strings(keys)
	return keys
}

func creditsLeft(r *Run, keys []string) bool {
	for _, k := range keys {
		if loopsAllowedUsed[r.Property+k] >= loopsAllowed[k].N {
			return false
		}
	}
	return true
}

// depthPass is a call in the manager's Execute that runs one depth: DepthExecutor.Execute
// itself, or a helper method of the manager that (statically) calls it. nest is the number of
// loops around the call, summed over the helpers on the way.
type depthPass struct {
	edge *Edge // the call in the manager's Execute
	nest int
}

func loopDepthOf(b *ssa.BasicBlock) int {
	d := 0
	for _, h := range b.Parent().Blocks {
		if l := naturalLoop(h); len(l) > 0 && l[b] {
			d++
		}
	}
	return d
}

func depthPassSites(r *Run, mgr *ssa.Function) []depthPass {
	const target = "executor.(*DepthExecutor).Execute"
	var nestTo func(fn *ssa.Function, depth int) []int
	nestTo = func(fn *ssa.Function, depth int) []int {
		var out []int
		if depth > 3 {
			return nil
		}
		for _, e := range r.P.CG.Out[fn] {
			if e.Kind != "static" {
				continue
			}
			if fnName(e.Callee) == target {
				out = append(out, loopDepthOf(e.Site.Block()))
			} else if e.Callee.Pkg == mgr.Pkg && e.Callee != mgr {
				for _, d := range nestTo(e.Callee, depth+1) {
					out = append(out, d+loopDepthOf(e.Site.Block()))
				}
			}
		}
		return out
	}
	var out []depthPass
	for _, e := range r.P.CG.Out[mgr] {
		if e.Kind != "static" {
			continue
		}
		if fnName(e.Callee) == target {
			out = append(out, depthPass{e, loopDepthOf(e.Site.Block())})
		} else if e.Callee.Pkg == mgr.Pkg && e.Callee != mgr {
			for _, d := range nestTo(e.Callee, 0) {
				out = append(out, depthPass{e, d + loopDepthOf(e.Site.Block())})
			}
		}
	}
	return out
}

// workerReturn is one way a fan-out worker hands back (value, error): a return of the worker
// itself, or — when the worker returns the whole result of a module function (`return
// de.executeGroup(index, groups[index])`) — a return of that function, with idx the value that
// stands for the worker's index there (the parameter the index is passed for; nil when the
// index is not handed in).
type workerReturn struct {
	ret      *ssa.Return
	val, err ssa.Value
	idx      ssa.Value
}

// workerReturns lists the returns of the worker f whose index is idx, looking through returns
// that forward the two results of a call of a module function.
func (r *Run) workerReturns(f *ssa.Function, idx ssa.Value, depth int) []workerReturn {
	var out []workerReturn
	for _, ret := range returnsOf(f) {
		vals := retVals(ret)
		if len(vals) != 2 {
			out = append(out, workerReturn{ret: ret, idx: idx})
			continue
		}
		e0, ok0 := vals[0].(*ssa.Extract)
		e1, ok1 := vals[1].(*ssa.Extract)
		if ok0 && ok1 && e0.Tuple == e1.Tuple && e0.Index == 0 && e1.Index == 1 && depth < 3 {
			if c, ok := e0.Tuple.(*ssa.Call); ok {
				if sc := c.Call.StaticCallee(); sc != nil {
					if h := r.P.declared(sc); h != nil && inModule(h) && h.Blocks != nil && len(h.Params) == len(c.Call.Args) {
						var in ssa.Value
						for k, a := range c.Call.Args {
							if idx != nil && unwrap(a) == idx {
								in = h.Params[k]
							}
						}
						out = append(out, r.workerReturns(h, in, depth+1)...)
						continue
					}
				}
			}
		}
		out = append(out, workerReturn{ret: ret, val: vals[0], err: vals[1], idx: idx})
	}
	return out
}

// indexOnlySelectsAndIsCarried: every use of the worker's index p is `list[p]` (the worker
// takes the element at its own position), a store of p (carried into the result for positional
// placement), or handing p to a function of the module in which the same holds for the
// parameter it is passed for — there without further indexing: the list stays with the worker.
func indexOnlySelectsAndIsCarried(r *Run, p *ssa.Parameter, mayIndex bool, depth int) bool {
	if p.Referrers() == nil {
		return true
	}
	for _, ref := range *p.Referrers() {
		switch x := ref.(type) {
		case *ssa.DebugRef:
		case *ssa.IndexAddr:
			if !mayIndex || x.Index != ssa.Value(p) {
				return false
			}
		case *ssa.Store:
			if x.Val != ssa.Value(p) {
				return false
			}
		case *ssa.Call:
			sc := x.Call.StaticCallee()
			if sc == nil || depth >= 3 {
				return false
			}
			h := r.P.declared(sc)
			if h == nil || !inModule(h) || h.Blocks == nil || len(h.Params) != len(x.Call.Args) {
				return false
			}
			for k, a := range x.Call.Args {
				if a == ssa.Value(p) && !indexOnlySelectsAndIsCarried(r, h.Params[k], false, depth+1) {
					return false
				}
			}
		default:
			return false
		}
	}
	return true
}

// executorEntries (R12a.entry): the send chain does not start at ParallelExecutor.Execute but
// where the request path enters the executor — at the calls of Executor.Execute (through the
// interface or on an implementation). Who makes them is R4a's business (whoMayCall); this rule
// asks how often: an entry is not inside a loop and is not made twice on one path, and the same
// holds for every call on the way up from the entry to the function that runs once per
// operation / per subscription event (the listed callers of the whoMayCall entry). A loop or a
// second attempt above the executor delivers everything below it — mutations included — again.
func (r *Run) executorEntries() {
	const rule = "R12a.entry"
	const execEntry = modPath + "/executor.Executor.Execute"
	var iface *types.Interface
	for _, p := range r.P.Pkgs {
		if p.PkgPath == modPath+"/executor" && p.Types != nil {
			if obj := p.Types.Scope().Lookup("Executor"); obj != nil {
				iface, _ = obj.Type().Underlying().(*types.Interface)
			}
		}
	}
	role := map[*ssa.Function]bool{}
	for _, c := range whoMayCall[execEntry].callers {
		for _, f := range r.RoleFuncs(strings.TrimPrefix(c, "@")) {
			role[f] = true
		}
	}
	type level struct {
		fn    *ssa.Function
		sites map[ssa.Instruction]bool
		what  string
		depth int
	}
	var work []level
	levelOf := map[*ssa.Function]int{}
	add := func(fn *ssa.Function, site ssa.Instruction, what string, depth int) {
		if i, ok := levelOf[fn]; ok {
			work[i].sites[site] = true
			return
		}
		levelOf[fn] = len(work)
		work = append(work, level{fn, map[ssa.Instruction]bool{site: true}, what, depth})
	}
	n := 0
	for _, fn := range r.P.Funcs {
		for _, e := range r.P.CG.Ext[fn] {
			if e.Name == execEntry {
				n++
				add(fn, e.Site, "Executor.Execute", 0)
			}
		}
		for _, e := range r.P.CG.Out[fn] {
			if e.Kind != "static" || iface == nil || e.Callee.Name() != "Execute" || e.Callee.Signature.Recv() == nil || topFn(fn) == topFn(e.Callee) {
				continue
			}
			if types.Implements(e.Callee.Signature.Recv().Type(), iface) {
				n++
				add(fn, e.Site, "Executor.Execute", 0)
			}
		}
	}
	r.AtLeast(rule, "calls of Executor.Execute", n, 2)
	const why = ": the whole execution of the operation — every request of every depth, a mutation included — is delivered to the services once more"
	// on the way up: the calls of every function that enters the executor, until the function
	// that runs once per operation / per event is reached (R1 and R8 say how often that runs)
	for i := 0; i < len(work); i++ {
		fn := work[i].fn
		if role[fn] {
			continue
		}
		if work[i].depth >= 6 {
			r.Bad(rule, fnName(fn), "calls "+work[i].what, r.P.pos(fn.Pos()), "the calls that lead to the executor could not be followed up to a function that runs once per operation (more than 6 levels of helpers)")
			continue
		}
		for _, e := range r.P.CG.In[fn] {
			switch e.Kind {
			case "param":
				continue
			case "extarg":
				r.Bad(rule, fnName(e.Caller), "hands "+fnName(fn)+" to "+calleeDesc(e.Site.Common()), r.P.pos(e.Site.Pos()), "the function that enters the executor is handed to a library function that decides how often it runs"+why)
				continue
			case "hoarg":
				if once, w := r.hofCallsOnce(e); !once {
					r.Bad(rule, fnName(e.Caller), "hands "+fnName(fn)+" to a helper", r.P.pos(e.Site.Pos()), "the function that enters the executor is handed to a helper that can run it more than once ("+w+")"+why)
					continue
				}
				if r.handsToFanOut(e) {
					r.Bad(rule, fnName(e.Caller), "fans out "+fnName(fn), r.P.pos(e.Site.Pos()), "the function that enters the executor is handed to the fan-out helper below the function that runs once per operation: it runs once per element of whatever the helper is given"+why)
					continue
				}
			}
			add(e.Caller, e.Site, fnName(fn)+", which enters the executor", work[i].depth+1)
		}
	}
	for _, lv := range work {
		fn := lv.fn
		looped := false
		var first ssa.Instruction
		for site := range lv.sites {
			if first == nil || site.Pos() < first.Pos() {
				first = site
			}
		}
		for site := range lv.sites {
			if inAnyLoop(site.Block()) {
				looped = true
				r.Bad(rule, fnName(fn), "calls "+lv.what, r.P.pos(site.Pos()), "the request path enters the executor from inside a loop of "+fnName(fn)+" (a retry, one run per element)"+why)
			}
		}
		if looped {
			continue
		}
		if max, _ := maxHopsOnPath(fn, lv.sites); max > 1 {
			r.Bad(rule, fnName(fn), "calls "+lv.what, r.P.pos(first.Pos()), fmt.Sprintf("a path through %s enters the executor %d times (a second attempt)", fnName(fn), max)+why)
			continue
		}
		r.OK(rule, fnName(fn), "calls "+lv.what, r.P.pos(first.Pos()), fmt.Sprintf("%d call site(s), none inside a loop, at most one on any path", len(lv.sites)))
	}
}
