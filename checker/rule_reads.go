package main

// R10 — READSET (DESIGN §3 R10): field read-sets over the call closure.
//  R10a′ every AST field the planner reads is covered by what the cache key is computed from
//  R10b  the variable-declaration collector and the variable-forwarding collector visit every
//        variable-bearing AST position the printer emits
//  R10d  the client's variable definitions are read on the request path

import (
	"go/token"
	"sort"
	"strings"

	"golang.org/x/tools/go/ssa"
)

const gqlAST = "github.com/vektah/gqlparser/v2/ast."

// extReads: what methods of gqlparser (no body in the module SSA) read.
var extReads = map[string][]string{
	"(*github.com/vektah/gqlparser/v2/ast.Value).String": {"Value.Raw", "Value.Kind", "Value.Children", "ChildValue.Name", "ChildValue.Value"},
	"(*github.com/vektah/gqlparser/v2/ast.Value).Value":  {"Value.Raw", "Value.Kind", "Value.Children", "ChildValue.Name", "ChildValue.Value", "Value.VariableDefinition", "VariableDefinition.DefaultValue"},
}

// readSet returns "Type.Field" for every load of a struct field in functions reachable from
// the roots, restricted to gqlparser AST types and the module's request/planner types.
func (r *Run) readSet(roots ...*ssa.Function) map[string]bool {
	out := map[string]bool{}
	short := func(n string) string {
		n = strings.TrimPrefix(n, gqlAST)
		n = strings.TrimPrefix(n, modPath+"/")
		return n
	}
	for fn := range r.P.CG.Reachable(roots, nil) {
		for _, ins := range allInstrs(fn) {
			switch x := ins.(type) {
			case *ssa.FieldAddr:
				read := false
				for _, ref := range *x.Referrers() {
					if st, ok := ref.(*ssa.Store); ok && st.Addr == ssa.Value(x) {
						continue
					}
					read = true
				}
				if f := fieldOf(x); read && f != nil {
					if n := namedOf(x.X.Type()); n != "" {
						out[short(n)+"."+f.Name()] = true
					}
				}
			case *ssa.Field:
				if f := fieldOfVal(x); f != nil {
					if n := namedOf(x.X.Type()); n != "" {
						out[short(n)+"."+f.Name()] = true
					}
				}
			case ssa.CallInstruction:
				for _, k := range extReads[calleeName(x.Common())] {
					out[k] = true
				}
			}
		}
	}
	return out
}

// astNodeTypes: the request-dependent AST node types of an operation.
var astNodeTypes = []string{"OperationDefinition", "FragmentDefinition", "FragmentSpread", "InlineFragment", "Field", "Argument", "Directive", "Value", "ChildValue", "VariableDefinition"}

// derivedFields: fields that are functions of (schema, printed text), filled by the validator.
var derivedFields = map[string]string{
	"Field.Definition":                 "validator annotation: function of schema + field name",
	"Field.ObjectDefinition":           "validator annotation",
	"Field.Position":                   "source position only",
	"InlineFragment.ObjectDefinition":  "validator annotation",
	"InlineFragment.Position":          "source position only",
	"FragmentSpread.ObjectDefinition":  "validator annotation",
	"FragmentSpread.Position":          "source position only",
	"FragmentSpread.Definition":        "link to the fragment definition; its contents are compared field by field",
	"Value.Definition":                 "validator annotation",
	"Value.ExpectedType":               "validator annotation",
	"Value.VariableDefinition":         "validator annotation that links to the operation's variable header: a link only — what a reader takes from the header shows up as VariableDefinition.* and is compared with the key like any other field (the resolver of a cached introspection step reads the default value through it; the header was not part of the key until repair b8cc31b)",
	"Value.Position":                   "source position only",
	"Argument.Position":                "source position only",
	"Directive.Position":               "source position only",
	"Directive.Definition":             "validator annotation",
	"OperationDefinition.Position":     "source position only",
	"FragmentDefinition.Name":          "printed through FragmentSpread.Name",
	"FragmentDefinition.Definition":    "validator annotation",
	"FragmentDefinition.Position":      "source position only",
	"OperationDefinition.Operation":    "covered by the dedicated key-depends-on-operation-type obligation (R10a)",
	"OperationDefinition.SelectionSet": "covered by the dedicated key-depends-on-selection-set obligation (R10a)",
}

func ruleKeyReadSet(r *Run) {
	const rule = "R10a.reads"
	planner := r.Anchor(rule, "planner.(SequentialPlanner).Plan")
	hash := r.Anchor(rule, "planner.(*CachedPlanner).hash")
	if planner == nil || hash == nil {
		return
	}
	// readers of a plan: the planner, and whoever is handed the selection set a plan step keeps
	// (the introspection resolver evaluates argument values on it for every later request that
	// is served the cached plan)
	roots := []*ssa.Function{planner}
	for _, fn := range r.P.Funcs {
		for _, ins := range allInstrs(fn) {
			ci, ok := ins.(ssa.CallInstruction)
			if !ok {
				continue
			}
			for _, a := range ci.Common().Args {
				ld, ok := unwrap(a).(*ssa.UnOp)
				if !ok || ld.Op != token.MUL {
					continue
				}
				fa, ok := ld.X.(*ssa.FieldAddr)
				if !ok || fieldOf(fa) == nil || fieldOf(fa).Name() != "SelectionSet" || !strings.HasSuffix(namedOf(fa.X.Type()), "planner.QueryPlanStep") {
					continue
				}
				if topFn(fn).Pkg != nil && topFn(fn).Pkg.Pkg.Path() == plannerPkg {
					continue // plan-time use inside the planner: already a root
				}
				for _, e := range r.P.CG.Out[fn] {
					if e.Site == ci && e.Callee != nil {
						roots = append(roots, e.Callee)
					}
				}
			}
		}
	}
	pr := r.readSet(roots...)
	hr := r.readSet(hash)
	var keys []string
	for k := range pr {
		keys = append(keys, k)
	}
	sort.Strings(keys)
	n := 0
	for _, k := range keys {
		typ := k[:strings.Index(k, ".")]
		isNode := false
		for _, t := range astNodeTypes {
			if t == typ {
				isNode = true
			}
		}
		if !isNode {
			continue
		}
		n++
		switch {
		case hr[k]:
			r.OK(rule, fnName(hash), "planner reads "+k, r.P.pos(hash.Pos()), "also read when the cache key is computed")
		case derivedFields[k] != "":
			r.Tabled(rule, fnName(hash), "planner reads "+k, r.P.pos(hash.Pos()), "derivedFields", derivedFields[k])
		default:
			r.Bad(rule, fnName(hash), "planner reads "+k, r.P.pos(hash.Pos()), "the plan, or what a later reader takes from the selection set a cached plan keeps, depends on "+k+" of the operation, but the cache key is computed without reading it: two operations that differ only there share one cached plan")
		}
	}
	r.AtLeast(rule, "AST fields read by the planner", n, 15)
	// the other per-request input of the planner is the request itself (text, variables,
	// operation name): whatever the planner reads of it decides the plan, so the key has to
	// read it too (a plan that depends on the VALUES of variables — @skip/@include decided at
	// plan time — cannot be shared between requests with other values)
	// the planning context itself: Schema and TypeURLMap belong to the gateway (the same for
	// every request), Operation and Request are compared field by field above; any other field
	// is a further per-request input (third audit: a `Variables` field filled from the request)
	constCtx := map[string]bool{"planner.PlanningContext.Schema": true, "planner.PlanningContext.TypeURLMap": true, "planner.PlanningContext.Operation": true, "planner.PlanningContext.Request": true}
	for _, k := range keys {
		if !strings.HasPrefix(k, "planner.PlanningContext.") || constCtx[k] {
			continue
		}
		if hr[k] {
			r.OK(rule, fnName(hash), "planner reads "+k, r.P.pos(hash.Pos()), "also read when the cache key is computed")
		} else {
			r.Bad(rule, fnName(hash), "planner reads "+k, r.P.pos(hash.Pos()), "the plan depends on "+k+", a field of the planning context that is neither a constant of the gateway nor read when the cache key is computed: two requests that differ only there share one cached plan")
		}
	}
	for _, k := range keys {
		if !strings.HasPrefix(k, "requests.Request.") {
			continue
		}
		if hr[k] {
			r.OK(rule, fnName(hash), "planner reads "+k, r.P.pos(hash.Pos()), "also read when the cache key is computed")
		} else {
			r.Bad(rule, fnName(hash), "planner reads "+k, r.P.pos(hash.Pos()), "the planner's result depends on "+k+" of the client's request, but the cache key is computed without reading it: two requests that differ only there share one cached plan")
		}
	}
}

// variablePositions: AST positions through which a variable reference can be reached.
var variablePositions = []string{
	"Field.Arguments", "Field.Directives", "Field.SelectionSet", "InlineFragment.Directives", "InlineFragment.SelectionSet",
	"FragmentSpread.Directives", "Directive.Arguments", "Argument.Value", "Value.Children", "ChildValue.Value",
}

func ruleVariableTraversals(r *Run) {
	const rule = "R10b"
	printer := r.Anchor(rule, "format.(*Formatter).formatSelectionSet")
	decl := r.Anchor(rule, "format.(*Formatter).walkArgumentList")
	fwd := r.Anchor(rule, "planner.getVariablesList")
	if printer == nil || decl == nil || fwd == nil {
		return
	}
	pr := r.readSet(printer)
	sibs := []struct {
		name string
		fn   *ssa.Function
		role string
	}{{"format.(*Formatter).walkArgumentList", decl, "declares the variables of a sub-request"}, {"planner.getVariablesList", fwd, "selects which client variables are forwarded with a sub-request"}}
	n := 0
	for _, pos := range variablePositions {
		if !pr[pos] {
			continue // the printer does not emit this position
		}
		for _, sb := range sibs {
			n++
			rs := r.readSet(sb.fn)
			construct := sb.name[strings.LastIndex(sb.name, ".")+1:] + " visits " + pos
			if rs[pos] {
				r.OK(rule, sb.name, construct, r.P.pos(sb.fn.Pos()), "the printer emits this position and the collector reads it")
			} else {
				r.Bad(rule, sb.name, construct, r.P.pos(sb.fn.Pos()), "the printer writes "+pos+" into the sub-request text, but the collector that "+sb.role+" never reads it: a variable used there is sent undeclared / without its value")
			}
		}
	}
	r.AtLeast(rule, "printer positions × collectors", n, 14)
	// R10d
	h := r.Anchor("R10d", "pebbles.(*Gateway).Handler")
	if h != nil {
		rs := r.readSet(h)
		// the variable header counts only where a sub-request is put together (its text, its
		// variable list, its values): being part of the plan-cache key (repair b8cc31b) does not
		// bring a declared default to a service (fourth audit: that read had discharged this)
		var builders []*ssa.Function
		for _, n := range []string{"planner.(*QueryPlanStep).SetComputedValues", "executor.(*DepthExecutor).getVariables", "planner.(*QueryPlan).SetComputedValues"} {
			if f := r.P.Fn(n); f != nil {
				builders = append(builders, f)
			}
		}
		brs := r.readSet(builders...)
		for _, k := range []string{"OperationDefinition.Operation", "OperationDefinition.Name", "OperationDefinition.SelectionSet", "OperationDefinition.VariableDefinitions"} {
			if k == "OperationDefinition.VariableDefinitions" {
				rs = map[string]bool{k: len(builders) > 0 && (brs[k] || brs["VariableDefinition.DefaultValue"])}
			}
			if rs[k] {
				r.OK("R10d", fnName(h), "request path reads "+k, r.P.pos(h.Pos()), "read by code reachable from the handler")
			} else {
				r.Bad("R10d", fnName(h), "request path reads "+k, r.P.pos(h.Pos()), k+" of the client's operation is never read on the request path: what the client declared there (variable types, default values) cannot influence the sub-requests")
			}
		}
	}
}
