package main

// Frozen tables: each entry was confirmed by reading the code; one line of reason each.
// Keys are "<function>/<normalised construct>" (DESIGN §2.4), never line numbers. N is the
// number of instances of that construct confirmed in that function: an additional instance
// is not covered by the entry and is reported.

type tabEntry struct {
	N      int
	Reason string
}

var boundsTable = map[string]tabEntry{
	"executor.(*DepthExecutor).executeRequests/‹[]*executor.ExecutionRequest›[‹int›]": {2,
		"both index values were recorded from `range ers` in this very call (iMap.Set(i, …) and nillResps[i]) and ers is not re-sliced"},
	"executor.ExtractValueModifyingSource/‹[]interface{}›[‹*executor.PointData›.Index]": {2,
		"the list was padded to Index+1 three statements earlier; points that reach this branch satisfy isListElement, so Extract parsed a non-negative index written by FindInsertionPoints from a range index"},
	"executor.FindInsertionPoints/‹[][]string›[‹int›][‹int›]": {4,
		"every branch of oldBranch was extended to length pointI+1 by `oldBranch[i] = append(points, point)` immediately above; i ranges over oldBranch"},
	"executor.copy2DStringArray/‹[][]string›[‹int›][‹int›]": {1,
		"res[i] was made with len(p) in the enclosing iteration and j ranges over p"},
	"pebbles.(Results).Emit/‹pebbles.Results›[0]": {1,
		"non-batch mode: parseRequest builds exactly one request when IsBatchMode is false and the accumulator is made with len(rs.Requests)"},
	"queryer.(*MultiOpQueryer).Query$2/‹[]map[string]interface{}›[(‹*queryer.chunkResponse›.Index+1)*‹*queryer.MultiOpQueryer›.maxBatchSize:]": {1,
		"guarded by (i+1)*m < lInputs and len(acc) == lInputs is an invariant of the splice"},
	"queryer.(*MultiOpQueryer).Query$2/‹[]map[string]interface{}›[0:‹*queryer.chunkResponse›.Index*‹*queryer.MultiOpQueryer›.maxBatchSize]": {1,
		"i*m <= lInputs = len(acc) (chunk arithmetic, hand argument)"},
	"merger.(ExtendMergerFunc).Merge/‹[]*github.com/vektah/gqlparser/v2/ast.Schema›[‹int›]": {1,
		"schemas has i+1 elements when ranging inputs[1:] at index i (one append per iteration, initial length 1)"},
	"merger.mergeCustomObjectFields/‹github.com/vektah/gqlparser/v2/ast.FieldList›[‹int›]": {1,
		"keys of isOverlappinggMap were indices of mf (range mf) in the loop above"},
	"pebbles.NewGateway/‹[]string›[‹int›]": {1,
		"introspector contract: one schema per URL, in order (the default implementation is checked by R9b: results are sorted by carried index and a failure returns no schemas)"},
}

var assertTable = map[string]tabEntry{
	// (empty: the one unchecked assertion of the request path, the element getLeftEntityPosition
	// found, is discharged by computation — R7.P2 searchedElementAssert)
}

var panicTable = map[string]tabEntry{
	"format.(*Formatter).formatSelection": {1,
		"default branch of a type switch over ast.Selection: gqlparser defines exactly Field, FragmentSpread and InlineFragment, all handled"},
}

var divTable = map[string]tabEntry{
	// (empty: the one division of the module, by MultiOpQueryer.maxBatchSize, is discharged by
	// computation — R7.P6 divisorFieldPositive. The former entry cited a rule "R13j" that was
	// never implemented: fourth audit)
}

var nilTable = map[string]tabEntry{
	"gqlerrors.(ErrorList).Error/element of a ErrorList (a list type decoded from JSON)": {1,
		"on the request and subscription paths ErrorList.Error() runs only when some code asks an error for its text (ToGqlError, NewError); rule R6s.path shows that a list answered by a service is only returned, joined by ExtendErrorList or formatted by FormatError on its way to the client — it is never asked for its text there, so a `null` entry of a service's `errors` array is not dereferenced (it reaches the client as null; checked: {\"errors\":[null]} yields errors:[null], no panic). At start-up NewGateway wraps an introspection failure with fmt.Errorf(\"%w\"), which does call Error(): package fmt recovers the panic of an Error method and prints %!v(PANIC=…), so the process survives (audit: observed)"},
	"executor.(*DepthExecutorManager).Execute/map lookup depthExecutors[…] without comma-ok": {1,
		"the loop runs depth 0..maxDepth; walkPlanStep records depth d+1 only below a step of depth d, so every depth up to the maximum key has an executor (depth 0 is tested explicitly since the fix for the empty plan)"},
	"pebbles.(*Gateway).newSubscriptionEntry/map lookup map[string]queryer.Queryer[…] without comma-ok": {1,
		"getQueryers inserts an entry for the URL of every step it is given, and rootStep is one of those steps"},
}

// errTable: deliberate drops / fallbacks, confirmed by reading.
var errTable = map[string]tabEntry{
	"planner.extractSelectionSet/test (*planner.PlanningContext).GetURL": {1,
		"deliberate fallback (comment in the source): a field GetURL knows no route for stays in the current step. Routes exist for every field of every object type except `id`, built-ins and the relay `node` lookup OF QUERY (TypeURLMap.SetFromSchema; R13c/R13d, and R13d.scope: every place that sets the node lookup aside also tests for the Query type), and interface fields have none by construction — so the fallback sees `id` and interface fields only. Twice this line was wrong and the swallowed error hid a field without a route: service fields shaped like the node field (F16, repro/audit2__root__audit_route_test.go.txt) and a `node(id: ID!): Node` field on an ordinary type (second audit, repro/audit4__root__audit4_route_test.go.txt); both repaired"},
	"queryer.(*MultiOpQueryer).Subscribe$2/test encoding/json.Unmarshal": {2,
		"two fallback decodings in the upstream reader: a frame that does not decode as a data frame is tried as an error frame — that second failure is reported to the subscriber, and so is a frame which decodes as an error list that carries no error (`payload: []`, `[null]`: second audit, repro/audit4__queryer__audit4_frame_test.go.txt; repaired, R12b.err.empty); an error frame whose payload is not a single error object falls back to a generic error that is reported as well"},
	"format.(*Formatter).write/drop io.Writer.Write": {1,
		"the writer is always the bytes.Buffer installed by BufferedFormatter.FormatSelectionSet; bytes.Buffer.Write never returns an error"},
	"introspection.(*IntrospectionResolver).resolveType/test (*gqlparser/ast.Value).Value": {2,
		"includeDeprecated: when the variable cannot be resolved the spec default (false) is used; validation has already type-checked the argument"},
	"introspection.(*IntrospectionResolver).ResolveIntrospectionFields/test (*gqlparser/ast.Value).Value": {1,
		"__type(name:): a name that cannot be evaluated (validation already type-checked it as String!) yields a null type, which is what an unknown name yields"},
	"introspection.parseInputField/test encoding/json.Marshal": {2,
		"the marshalled value was itself produced by json.Unmarshal (interface{} tree of maps, slices, strings, numbers, bools): Marshal cannot fail on it"},
	"pebbles.(*Gateway).subscriptionHandler/drop github.com/buildbuildio/pebbles.sendHeartbeat": {1,
		"heartbeat goroutine: a failed keep-alive write means the client is gone; the read loop notices the same broken connection and tears down"},
	"pebbles.(*Gateway).subscriptionHandler$2/drop net.Conn.Close":   {1, "closing an already failing connection: nothing to report to"},
	"queryer.(*MultiOpQueryer).Subscribe$1/drop net.Conn.Close":      {1, "closing the upstream connection on teardown: nothing to report to"},
	"queryer.(*MultiOpQueryer).Subscribe$2$1/drop net.Conn.Close":    {1, "closing the upstream connection on teardown: nothing to report to"},
	"queryer.(*MultiOpQueryer).sendRequest/drop io.ReadCloser.Close": {1, "body already read completely; Close error carries no information for the caller"},
	"pebbles.(Results).Emit/drop (*encoding/json.Encoder).Encode":    {2, "the status line is already written; an encode/write failure means the client went away and cannot be told"},
	"playground.(DefaultPlayground).ServePlayground/drop net/http.ResponseWriter.Write": {1,
		"static playground page: a failed write means the browser went away"},
	"pebbles.emitError/drop (*encoding/json.Encoder).Encode": {1, "the status line is already written; an encode/write failure means the client went away and cannot be told"},
}

// terminateTable: connection-owning functions without an error result whose reaction to a
// failure is to stop serving that connection (their deferred teardown is checked by R5).
var terminateTable = map[string]string{
	"pebbles.(*Gateway).subscriptionHandler":   "websocket handler: any protocol/IO/validation failure ends the connection; teardown is deferred (R5 iv)",
	"pebbles.(*Gateway).subscriptionHandler$2": "deferred teardown itself: a failed close-frame write means the peer is gone",
	"pebbles.(*subscriptionEntry).Listen":      "per-subscription writer: a failed marshal/write ends the subscription; teardown is deferred (R5 v)",
}

// detTable: map ranges whose order-independence needs an argument beyond the recognised
// patterns (DESIGN Appendix A).
var detTable = map[string]tabEntry{
	"executor.(*DepthExecutor).executeRequests/range map[int]struct{}": {1,
		"K: writes qResps[ind] where ind is the loop key (slice element store keyed by the key)"},
	"executor.(indexMap).GetSameIndexes/range param executor.indexMap": {1,
		"early return on v.targetIndex == targetIndex: target indexes are assigned as len(iMap) at insertion, hence unique per entry — at most one iteration can match"},
	"merger.(ExtendMergerFunc).Merge/range .Types map[string]*github.com/vektah/gqlparser/v2/ast.Definition": {1,
		"each iteration mutates only the definition stored under its own key (fills union members from PossibleTypes[name], whose order comes from slices)"},
	"merger.(TypeURLMap).GetURLs/range map[string]struct{}": {1,
		"the unsorted URL list is consumed only by routeSelectionSet, which writes result[loc] keyed by the element (callers frozen by R4a-style check below)"},
	"merger.(TypeURLMap).SetFromSchema/range param map[string]*github.com/vektah/gqlparser/v2/ast.Definition": {1,
		"K: Set(k, field, url) and SetTypeIsImplementsNode(k) write the entry of the loop key; field order inside comes from a slice"},
	"merger.mergeCustomObjectFields/range map[int]bool": {1,
		"builds the list of names inside an error message only (the other loop over this map, a boolean or/and accumulation, is classified by the rule itself now)"},
	"merger.mergeTypes/range param map[string]*github.com/vektah/gqlparser/v2/ast.Definition": {1,
		"each iteration reads a[k], b[k] and writes result[k] for its own key; an early return only selects which of several conflicts is reported — acceptance (no conflict at any key) does not depend on order"},
	"pebbles.(subscriptionDict).CleanAll/range param pebbles.subscriptionDict": {1,
		"D: closes and deletes every entry; per key independent"},
	"planner.(*CachedPlanner).clean/range .cacheTimers map[planner.hashKey]time.Time": {1,
		"D: collect expired keys, then delete each — the set of deleted keys does not depend on order"},
	"planner.(ScrubFields).Merge/range param planner.ScrubFields": {1,
		"K: writes sf[i][j] for the loop keys i (outer) and j (inner)"},
	"planner.createQueryPlanSteps/range map[string]github.com/vektah/gqlparser/v2/ast.SelectionSet": {1,
		"one step per location; the order of sibling steps decides only the order in which requests are created, and DepthExecutor.Execute sorts its requests on entry (R9b.sorted-entry) and answers every URL group at its own position (R9b POS-index); the early exit is an error return (an unroutable selection fails whichever location is visited first, with the same kind of error)"},
}

// detKinds / stepKinds: for every tabled loop, the kinds of order-sensitive effects the
// tabled argument covers. A new kind of effect in the same loop is not covered.
var detKinds = map[string][]string{
	"executor.(*DepthExecutor).executeRequests/range map[int]struct{}":                                        {"store"},
	"executor.(indexMap).GetSameIndexes/range param executor.indexMap":                                        {"early-exit"},
	"merger.(ExtendMergerFunc).Merge/range .Types map[string]*github.com/vektah/gqlparser/v2/ast.Definition":  {"store"},
	"merger.(TypeURLMap).GetURLs/range map[string]struct{}":                                                   {"append-unsorted"},
	"merger.(TypeURLMap).SetFromSchema/range param map[string]*github.com/vektah/gqlparser/v2/ast.Definition": {"call:(merger.TypeURLMap).Set", "call:(merger.TypeURLMap).SetTypeIsImplementsNode"},
	"merger.mergeCustomObjectFields/range map[int]bool":                                                       {"append-unsorted", "carried:bool"},
	"merger.mergeTypes/range param map[string]*github.com/vektah/gqlparser/v2/ast.Definition":                 {"call:merger.mergeCustomObjects", "call:merger.mergeRootObjects", "early-exit"},
	"pebbles.(subscriptionDict).CleanAll/range param pebbles.subscriptionDict":                                {"call:(github.com/buildbuildio/pebbles.subscriptionDict).Clean"},
	"planner.(*CachedPlanner).clean/range .cacheTimers map[planner.hashKey]time.Time":                         {"append-unsorted"},
	"planner.(ScrubFields).Merge/range param planner.ScrubFields":                                             {"mapwrite-unkeyed"},
	"planner.createQueryPlanSteps/range map[string]github.com/vektah/gqlparser/v2/ast.SelectionSet":           {"call:planner.extractSelectionSet", "early-exit"},
}
var stepKinds = map[string][]string{
	"executor.(*DepthExecutorManager).Execute":    {"append-unsorted"},
	"executor.NewDepthExecutorManager":            {"call:executor.walkPlanStep"},
	"executor.findNextExecutionRequestsWithCache": {"call:executor.FindInsertionPoints", "call:executor.copy2DStringArray", "carried:[]*executor.ExecutionRequest", "early-exit"},
	"executor.walkPlanStep":                       {selfRecursionKind},
	"pebbles.(*Gateway).getQueryers":              {selfRecursionKind, "call:dynamic call of pebbles.QueryerFactory"},
	"pebbles.(*Gateway).newSubscriptionEntry":     {"append-unsorted"},
	"pebbles.(*Gateway).newSubscriptionEntry$1":   {"call:executor.FindInsertionPoints", "carried:[]*planner.QueryPlanStep", "early-exit"},
	"pebbles.(*Gateway).parseIntrospectionQuery":  {"call:(*introspection.IntrospectionResolver).ResolveIntrospectionFields", "early-exit"},
	"planner.(*QueryPlan).SetComputedValues":      {"call:(*planner.QueryPlanStep).SetComputedValues", "store"},
	"planner.(*QueryPlanStep).SetComputedValues":  {selfRecursionKind, "store"},
	"planner.extractSelectionSet":                 {"early-exit"},
}
