#!/bin/bash
# ingest_benign.sh Bk — confirm each refactoring an agent left in /tmp/wt/out-Bk/<n>/ (applies,
# builds, 196 tests pass), store it as selftest variant gb-Bk-n (benign, all properties) and run
# every check against it.
export GOFLAGS=-mod=mod GOPROXY=off GOSUMDB=off GOTOOLCHAIN=local
b=$1
props=$(jq -r '[.checks[].property_id]|join(" ")' /verif/MANIFEST.json)
for d in /tmp/wt/out-$b/[0-9]*/; do
  n=$(basename $d); [ -f $d/patch.diff ] || continue
  wt=$(mktemp -d /tmp/benwt.XXXXXX); rmdir $wt
  git -C /repo worktree add -q --detach $wt HEAD || continue
  ok=1
  (cd $wt && git apply $d/patch.diff 2>/dev/null) || { echo "$b-$n: patch does not apply"; ok=0; }
  if [ $ok = 1 ]; then (cd $wt && go build ./... >/dev/null 2>&1 && go test -vet=off -count=1 ./... >/dev/null 2>&1) || { echo "$b-$n: build/tests fail"; ok=0; }; fi
  git -C /repo worktree remove --force $wt >/dev/null 2>&1; rm -rf $wt
  [ $ok = 1 ] || continue
  name=gb-$b-$n
  cp $d/patch.diff /verif/selftest/variants/$name.patch
  jq --arg name $name --argjson props "$(jq '[.checks[].property_id]' /verif/MANIFEST.json)" '{name:$name, kind:"benign", properties:$props, note:(.title+": "+.what_changed)}' $d/meta.json > /verif/selftest/variants/$name.json
  out=$(/verif/tools/try_patch.sh /verif/selftest/variants/$name.patch $props 2>&1)
  fired=$(echo "$out" | grep -v 'exit=0' | tr '\n' ' ')
  echo "$name: $(jq -r .title $d/meta.json | cut -c1-80) => ${fired:-silent}"
done
git -C /repo worktree remove --force /tmp/wt/$b 2>/dev/null
