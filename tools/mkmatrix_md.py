#!/usr/bin/env python3
"""mkmatrix_md.py <matrix.txt> — fills @MATRIX@ / @NVAR@ (or refreshes the generated block) in DESIGN.md"""
import sys, json, re, glob, os
rows=[]
for line in open(sys.argv[1]):
    m=re.match(r'(\S+) \[(\w+)\] fired: ?(.*)$', line.strip())
    if not m: continue
    sid, mark, fired = m.groups()
    fired=re.sub(r'PATCH-DOES-NOT-APPLY.*','(patch does not apply)',fired).strip()
    meta=json.load(open('/verif/seeded/%s/meta.json'%sid))
    title=meta.get('title','').replace('|','/')
    rows.append("| %s | %s | %s | %s |"%(sid, title[:110], fired or '—', {'own':'own','other':'other only','MISS':'**missed**'}[mark]))
tbl="| seeded change | what it does | checks that fire | verdict |\n|---|---|---|---|\n"+"\n".join(rows)
block="<!-- matrix:begin -->\n"+tbl+"\n<!-- matrix:end -->"
s=open('/verif/DESIGN.md').read()
if '@MATRIX@' in s: s=s.replace('@MATRIX@',block)
else: s=re.sub(r'<!-- matrix:begin -->.*?<!-- matrix:end -->',lambda m:block,s,flags=re.S)
nvar=len(glob.glob('/verif/selftest/variants/*.json'))
s=s.replace('@NVAR@',str(nvar))
s=re.sub(r'\(`selftest/variants`, `tools/selftest.sh`\): \d+ variants','(`selftest/variants`, `tools/selftest.sh`): %d variants'%nvar,s)
open('/verif/DESIGN.md','w').write(s)
print(len(rows),"rows")
