#!/bin/bash
# usage: fuzz_rebase.sh <seed-id> — re-creates seeded/<id>/patch.diff against /repo HEAD by applying
# it with patch(1)'s fuzz to a scratch worktree and diffing; then re-verifies it.
id=$1; wt=$(mktemp -d /tmp/fz.XXXXXX); rmdir $wt
git -C /repo worktree add -q --detach $wt HEAD || exit 2
if (cd $wt && patch -p1 -s --no-backup-if-mismatch < /verif/seeded/$id/patch.diff >/dev/null 2>&1); then
  (cd $wt && git add -A && git diff --cached HEAD) > /tmp/fz.$id.diff
  git -C /repo worktree remove --force $wt
  /verif/tools/reverify_seed.sh $id /tmp/fz.$id.diff; rm -f /tmp/fz.$id.diff
else
  git -C /repo worktree remove --force $wt; echo "$id: does not apply even with fuzz"
fi
