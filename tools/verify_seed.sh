#!/bin/bash
# usage: verify_seed.sh <dir with patch.diff, zz_demo_test.go, meta.json> <seed-id>
# Confirms in a fresh scratch worktree: demo passes clean; patched tree builds and passes the
# existing suite; demo fails with the patch. On success copies into /verif/seeded/<seed-id>/.
export GOFLAGS=-mod=mod GOPROXY=off GOSUMDB=off GOTOOLCHAIN=local
d="$1"; id="$2"
wt=$(mktemp -d /tmp/seedwt.XXXXXX); rmdir $wt
git -C /repo worktree add -q --detach $wt HEAD || exit 2
trap 'git -C /repo worktree remove --force '$wt' >/dev/null 2>&1; rm -rf '$wt EXIT
demodir=$(jq -r .demo_dir $d/meta.json); democmd=$(jq -r .demo_cmd $d/meta.json)
cd $wt
cp $d/zz_demo_test.go $wt/$demodir/zz_demo_test.go
s1=FAIL; (eval "timeout 300 $democmd") >/tmp/seed.$$.1 2>&1 && s1=PASS
rm $wt/$demodir/zz_demo_test.go
git apply $d/patch.diff || { echo "$id: patch does not apply"; exit 1; }
s2b=FAIL; go build ./... >/tmp/seed.$$.2 2>&1 && s2b=PASS
s2=FAIL; go test -vet=off -count=1 ./... >>/tmp/seed.$$.2 2>&1 && s2=PASS
cp $d/zz_demo_test.go $wt/$demodir/zz_demo_test.go
s3=PASS; (eval "timeout 300 $democmd") >/tmp/seed.$$.3 2>&1 || s3=FAIL
echo "$id: clean+demo=$s1 patched-build=$s2b patched-suite=$s2 patched+demo=$s3"
if [ $s1 = PASS ] && [ $s2b = PASS ] && [ $s2 = PASS ] && [ $s3 = FAIL ]; then
  mkdir -p /verif/seeded/$id; cp $d/patch.diff $d/zz_demo_test.go /verif/seeded/$id/
  jq --arg ran "verify_seed.sh on $(date -u +%FT%TZ): demo passes on clean worktree; patched tree: go build ok, go test -vet=off -count=1 ./... ok; demo fails with patch" '. + {confirmed: $ran}' $d/meta.json > /verif/seeded/$id/meta.json
  echo "$id: KEPT"
else
  echo "$id: REJECTED"; tail -5 /tmp/seed.$$.2
fi
rm -f /tmp/seed.$$.*
