#!/bin/bash
# usage: rebase_patch.sh <patch file> <out file>
# Re-creates a patch that no longer applies to /repo HEAD: finds the newest ancestor commit it
# applies to, commits it there in a scratch worktree (outside /repo and /verif) and
# cherry-picks that commit onto HEAD. Prints CLEAN, CONFLICT (worktree kept for manual work:
# path printed) or NOBASE. The scratch branch/worktree is removed unless there is a conflict.
p=$(readlink -f "$1"); out="$2"
wt=$(mktemp -d /tmp/rb.XXXXXX); rmdir $wt
for c in $(git -C /repo rev-list HEAD); do
  git -C /repo worktree add -q --detach $wt $c 2>/dev/null || continue
  if (cd $wt && git apply --check "$p" 2>/dev/null); then
    (cd $wt && git apply "$p" && git add -A && git -c user.name=x -c user.email=x@x commit -qm tmp)
    pick=$(git -C $wt rev-parse HEAD)
    (cd $wt && git checkout -q --detach $(git -C /repo rev-parse HEAD))
    if (cd $wt && git -c user.name=x -c user.email=x@x cherry-pick $pick >/dev/null 2>&1); then
      (cd $wt && git diff HEAD~1 HEAD) > "$out"
      git -C /repo worktree remove --force $wt; echo "CLEAN base=$c"; exit 0
    else
      echo "CONFLICT base=$c worktree=$wt pick=$pick"; (cd $wt && git status --short | head); exit 1
    fi
  fi
  git -C /repo worktree remove --force $wt
done
echo NOBASE; exit 2
