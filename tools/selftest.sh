#!/bin/bash
# usage: selftest.sh [name-glob]   — runs every selftest variant both ways
cd /verif/selftest/variants
pass=0; fail=0
for j in ${1:-*}.json; do
  n=${j%.json}
  kind=$(jq -r .kind $j); props=$(jq -r '.properties|join(" ")' $j)
  out=$(/verif/tools/try_patch.sh /verif/selftest/variants/$n.patch $props 2>&1)
  ok=1
  if echo "$out" | grep -q PATCH-DOES-NOT-APPLY; then echo "SKIP $n (does not apply)"; continue; fi
  resid=$(jq -r '(.residual // [])|join(" ")' $j)
  miss=$(jq -r '.known_miss // ""' $j)
  if [ $kind = breaking ]; then echo "$out" | grep -q 'exit=1' || { if [ -n "$miss" ]; then echo "     $n: documented miss"; else ok=0; fi; }; else
    alarms=$(echo "$out" | grep -v 'exit=0' | cut -d' ' -f1 | tr '\n' ' ')
    for a in $alarms; do case " $resid " in *" $a "*) ;; *) ok=0;; esac; done
    [ -n "$alarms" ] && [ $ok = 1 ] && echo "     $n: documented residual false alarm(s): $alarms"
  fi
  if [ $ok = 1 ]; then pass=$((pass+1)); echo "ok   $n [$kind] $(echo $out)"; else fail=$((fail+1)); echo "FAIL $n [$kind] $(echo $out)"; fi
done
echo "selftest: pass=$pass fail=$fail"
