#!/usr/bin/env python3
"""mkvariant.py <name> <kind:breaking|benign> <props,comma> <file> <<< JSON list of [old,new] replacements (stdin)
Writes /verif/selftest/variants/<name>.patch and <name>.json. Each old string must occur exactly once."""
import sys, json, difflib, os
name, kind, props, path = sys.argv[1:5]
note = sys.argv[5] if len(sys.argv) > 5 else ""
reps = json.load(sys.stdin)
src = open(os.path.join('/repo', path)).read()
new = src
for old, rep in reps:
    if new.count(old) != 1:
        sys.exit("replacement %r occurs %d times in %s" % (old[:50], new.count(old), path))
    new = new.replace(old, rep)
diff = ''.join(difflib.unified_diff(src.splitlines(True), new.splitlines(True), 'a/' + path, 'b/' + path))
out = '/verif/selftest/variants/' + name
mode = 'a' if os.environ.get('APPEND') else 'w'
open(out + '.patch', mode).write(diff)
json.dump({"name": name, "kind": kind, "properties": props.split(','), "note": note}, open(out + '.json', 'w'), indent=1)
print("wrote", out + '.patch', len(diff.splitlines()), "lines")
