#!/bin/bash
# usage: try_patch.sh <patch.diff> <property> [<property>...]
# Applies the patch to a scratch copy of /repo's working tree (outside /repo and /verif),
# runs the given checks against the copy, prints one line per property, removes the copy.
set -u
patch="$1"; shift
tmp=$(mktemp -d "${TMPDIR:-/tmp}/pebtry.XXXXXX")
trap 'rm -rf "$tmp"' EXIT
mkdir -p "$tmp/repo" "$tmp/verif"
rsync -a --exclude .git /repo/ "$tmp/repo/"
cp /verif/KNOWN_FINDINGS.txt "$tmp/verif/" 2>/dev/null
if ! (cd "$tmp/repo" && patch -p1 -s --no-backup-if-mismatch < "$patch" >/dev/null 2>&1); then
  echo "PATCH-DOES-NOT-APPLY $patch"; exit 3
fi
props=$(echo "$@" | tr ' ' ',')
out=$(${PEB:-/verif/bin/pebcheck} check --property "$props," --repo "$tmp/repo" --verif "$tmp/verif" 2>&1); code=$?
if [ $code -ge 2 ]; then echo "ERROR exit=$code"; echo "$out" | tail -5; fi
for p in "$@"; do
  c=$(echo "$out" | grep "^RESULT $p " | sed 's/.*exit=//')
  nv=$(echo "$out" | grep -c "^VIOLATION property=$p ")
  echo "$p exit=${c:-?} violations=$nv"
done
if [ "${VERBOSE:-0}" = 1 ]; then echo "$out" | grep -A2 -E '^VIOLATION|internal error|cannot analyse' | sed "s#$tmp/repo/##g; s#$tmp/verif#/verif#g" | head -${LINES_MAX:-40}; fi
