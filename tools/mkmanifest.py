#!/usr/bin/env python3
"""Regenerates /verif/MANIFEST.json from the claim table below. Run after changing claims."""
import json, subprocess
props = {json.loads(l)['id']: json.loads(l) for l in open('/verif/properties.jsonl')}
# id -> (claim text, level_note, technique, design_ref)
CLAIMS = json.load(open('/verif/tools/claims.json'))
NA = json.load(open('/verif/tools/not_applicable.json'))
fixes = subprocess.run(['git','-C','/repo','log','--format=%h %s','ccd63bc..HEAD'],capture_output=True,text=True).stdout.strip().splitlines()
checks = []
for pid in sorted(CLAIMS):
    c = CLAIMS[pid]
    checks.append({
        "property_id": pid,
        "quick_cmd": "./bin/pebcheck check --property %s --tier quick" % pid,
        "thorough_cmd": "./bin/pebcheck check --property %s --tier thorough" % pid,
        "evidence_file": "/verif/evidence/%s.json" % pid,
        "replay_cmd_template": "./bin/pebcheck explain {path}",
        "engine": "pebcheck",
        "level_claimed": {"category": "other", "text": c["text"], "design_ref": c.get("design_ref", "DESIGN.md §4 " + pid)},
        "level_note": c["note"],
        "technique": c["technique"],
    })
m = {
 "version": 1,
 "setup_cmd": "cd /verif/checker && GOFLAGS=-mod=mod GOPROXY=off GOSUMDB=off GOTOOLCHAIN=local GOWORK=off go build -o /verif/bin/pebcheck .",
 "hooks": {"guard": "verif", "enable": "none needed: static analysis reads /repo's source; nothing is instrumented, the tag is declared but unused",
           "baseline_off_cmd": "cd /repo && GOFLAGS=-mod=mod GOPROXY=off GOSUMDB=off GOTOOLCHAIN=local go test -vet=off -count=1 ./...",
           "source_commits": [], "add_only": True},
 "engines": [{"name": "pebcheck", "path": "/verif/checker", "serves_properties": sorted(CLAIMS),
              "kind_free_text": "repository-specific static analyser: go/packages + go/ssa + dominators/CFG paths + module call graph + compiler bounds-check facts (x/tools v0.29.0, go1.23.5); no pebbles code is executed"}],
 "checks": checks,
 "notes": "All claims are level `other`: each check decides named structural clauses (necessary conditions) of its property from the source, for all inputs and schedules at once; what is not decided is stated per check. Genuine defects repaired in /repo (fix: commits): " + "; ".join(fixes) + ". Recorded, unrepaired defects: /verif/KNOWN_FINDINGS.txt.",
 "not_applicable": [{"property_id": k, "reason": v} for k, v in sorted(NA.items()) if k not in CLAIMS],
}
json.dump(m, open('/verif/MANIFEST.json', 'w'), indent=1, ensure_ascii=False)
print("claims:", sorted(CLAIMS), "n/a:", [x["property_id"] for x in m["not_applicable"]])
