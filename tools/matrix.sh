#!/bin/bash
# usage: matrix.sh [seed-glob] — for each seeded mutant, which property checks fire
props=$(/verif/bin/pebcheck list | grep -o '^C[0-9]*' | tr '\n' ' ')
for d in /verif/seeded/${1:-*}/; do
  id=$(basename $d)
  out=$(/verif/tools/try_patch.sh $d/patch.diff $props 2>&1)
  fired=$(echo "$out" | grep 'exit=1' | awk '{print $1}' | tr '\n' ' ')
  err=$(echo "$out" | grep -E 'exit=[23]|DOES-NOT-APPLY' | tr '\n' ' ')
  own=${id%%-*}
  mark=MISS; echo " $fired" | grep -q " $own " && mark=own
  [ -n "$fired" ] && [ $mark = MISS ] && mark=other
  echo "$id [$mark] fired: $fired $err"
done
