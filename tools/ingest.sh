#!/bin/bash
# ingest.sh Cxx — confirm the changes an agent left in /tmp/wt/out-Cxx/{A,B,C}, keep them
# under the next free letters, remove the agent's worktree, run the matrix for them.
p=$1
for x in A B C; do
  [ -f /tmp/wt/out-$p/$x/patch.diff ] || { echo "$p/$x: nothing delivered"; continue; }
  for l in C D E F G H I J K L M N O P Q R S T U V W X Y Z ZA ZB ZC ZD ZE ZF ZG ZH ZI; do [ -d /verif/seeded/$p-$l ] || break; done
  /verif/tools/verify_seed.sh /tmp/wt/out-$p/$x $p-$l 2>&1 | tail -1
  [ -d /verif/seeded/$p-$l ] && /verif/tools/matrix.sh $p-$l
done
git -C /repo worktree remove --force /tmp/wt/$p 2>/dev/null
