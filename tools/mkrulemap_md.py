#!/usr/bin/env python3
"""mkrulemap_md.py — refreshes the generated rule→property table (between <!-- rulemap:begin/end -->) in DESIGN.md from /verif/evidence/*.json"""
import json, glob, re
rows=[]
for f in sorted(glob.glob('/verif/evidence/C*.json')):
    e=json.load(open(f)); c=e['coverage']
    parts=[]
    for r in c.get('rules',[]):
        s="%s (%d"%(r['rule'],r['sites'])
        if r['tabled']: s+=", %d tabled"%r['tabled']
        if r['known']: s+=", %d known"%r['known']
        parts.append(s+")")
    rows.append("| %s | %d | %s |"%(e['property_id'], c.get('evaluations',0), ", ".join(parts)))
tbl="| property | obligations (quick tier) | rules (sites[, tabled][, known findings]) |\n|---|---|---|\n"+"\n".join(rows)
block="<!-- rulemap:begin -->\n"+tbl+"\n<!-- rulemap:end -->"
s=open('/verif/DESIGN.md').read()
s=re.sub(r'<!-- rulemap:begin -->.*?<!-- rulemap:end -->',lambda m:block,s,flags=re.S)
open('/verif/DESIGN.md','w').write(s)
print(len(rows),"rows")
