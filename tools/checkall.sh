#!/bin/bash
# run every registered property on /repo without touching committed evidence
mkdir -p /tmp/pebx && cp /verif/KNOWN_FINDINGS.txt /tmp/pebx/ && /verif/bin/pebcheck check --property all --verif /tmp/pebx "$@" | grep -E "^RESULT|^VIOLATION|^  |^KNOWN" 
