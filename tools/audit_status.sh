#!/bin/bash
# audit_status.sh [pattern] — run the third-audit variants (x* must fire on their property, y* must be silent)
pat=${1:-.}
props=$(jq -r '[.checks[].property_id]|join(" ")' /verif/MANIFEST.json)
for j in /verif/selftest/variants/[xy]a[0-9]*.json; do
  n=$(basename $j .json); echo $n | grep -q "$pat" || continue
  kind=$(jq -r .kind $j)
  if [ $kind = breaking ]; then
    p=$(jq -r '.properties|join(" ")' $j)
    out=$(${TRY:-/verif/tools/try_patch.sh} /verif/selftest/variants/$n.patch $p 2>&1 | tr '\n' ' ')
    if echo "$out" | grep -q 'exit=1'; then echo "ok   $n fires: $out"; elif [ -n "$(jq -r '.known_miss // ""' $j)" ]; then echo "ok   $n documented miss"; else echo "HOLE $n: $out"; fi
  else
    out=$(${TRY:-/verif/tools/try_patch.sh} /verif/selftest/variants/$n.patch $props 2>&1 | grep -v 'exit=0' | tr '\n' ' ')
    resid=$(jq -r '(.residual // [])|join(" ")' $j)
    if [ -z "$out" ]; then echo "ok   $n silent"; elif [ -n "$resid" ]; then echo "ok   $n documented residual: $out"; else echo "LOUD $n: $out"; fi
  fi
done
