#!/bin/bash
# usage: reverify_seed.sh <seed-id> <new patch> — confirms the rebased patch with the seed's own
# demo (demo passes clean, patched tree builds + passes the suite, demo fails patched) and, on
# success, replaces seeded/<id>/patch.diff and notes the rebase in meta.json.
export GOFLAGS=-mod=mod GOPROXY=off GOSUMDB=off GOTOOLCHAIN=local
id=$1; new=$(readlink -f $2); d=/verif/seeded/$id
tmp=$(mktemp -d /tmp/rv.XXXXXX); cp $d/zz_demo_test.go $d/meta.json $tmp/; cp $new $tmp/patch.diff
out=$(/verif/tools/verify_seed.sh $tmp ${id}-rebased 2>&1 | tail -3)
echo "$out" | tail -1
if [ -d /verif/seeded/${id}-rebased ]; then
  cp /verif/seeded/${id}-rebased/patch.diff $d/patch.diff
  jq --arg r "re-based on $(git -C /repo rev-parse --short HEAD) and re-confirmed $(date -u +%F)" '. + {rebased: $r}' $d/meta.json > $tmp/m.json && cp $tmp/m.json $d/meta.json
  rm -rf /verif/seeded/${id}-rebased
fi
rm -rf $tmp
